/* Fake clock: the statically linked libjwt calls this time(). */
#include <time.h>
time_t vh_now = 1700000000;
time_t time(time_t *t)
{
	if (t)
		*t = vh_now;
	return vh_now;
}

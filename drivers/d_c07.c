/* C07 (and C16's loader): arbitrary JWK / JWKS input through every jwks_load* / jwks_create* entry point.
 * modes: dump  — print fresh well-formed JWK templates (one JSON object per line) for the Python generator
 *        docs  — --arg1 FILE with one hex-encoded document per line; each is loaded through entry point
 *                (line_index % NENTRY) unless "E<n>:" prefixes the line; the outcome is logged:
 *   ["J", idx, entry, effective_text_hex, set_null, set_err, set_msg_nonempty, before, after, [[kid,err,msg_nonempty,kty,has_pem,has_oct,bits,alg,priv,curve],...]]
 * With -DVH_FUZZ_MAIN: libFuzzer target (input = document, first byte selects the entry point).
 */
#include "vh.h"
#include <unistd.h>

#define NENTRY 15
static const char *GOOD = "{\"kty\":\"oct\",\"k\":\"AAECAwQFBgcICQoLDA0ODw\",\"kid\":\"pre-existing\"}";
static char tmpname[64];

static jwk_set_t *load_via(int entry, const char *doc, size_t len, size_t *eff_len, size_t *before)
{
	jwk_set_t *set = NULL;
	size_t sl = strnlen(doc, len);
	*before = 0;
	*eff_len = len;
	switch (entry) {
	case 0: *eff_len = sl; return jwks_create(doc);
	case 1: set = jwks_create(GOOD); *before = 1; *eff_len = sl; return jwks_load(set, doc);
	case 2: return jwks_load_strn(NULL, doc, len);
	case 3: *eff_len = len / 2; return jwks_load_strn(NULL, doc, len / 2);
	case 4: *eff_len = len ? len - 1 : 0; return jwks_create_strn(doc, *eff_len);
	case 9: *eff_len = 0; return jwks_load_strn(NULL, doc, 0);		/* explicit zero length although the buffer holds text */
	case 10: set = jwks_create(GOOD); *before = 1; *eff_len = 0; return jwks_load_strn(set, doc, 0);
	case 11: *eff_len = 0; return jwks_create_fromfile("/nonexistent-dir/vh-no-such-file.json");	/* unreadable path: set error, no item */
	case 12: set = jwks_create(GOOD); *before = 1; *eff_len = 0; return jwks_load_fromfile(set, "/");		/* a directory */
	case 13: case 14: {	/* FILE* positioned in the middle: what is read is the rest (entry 14: after reading up to EOF once, i.e. nothing) */
		FILE *f = fopen(tmpname, "wb");
		if (!f) vh_harness_fail("tmp file");
		fwrite(doc, 1, len, f);
		fclose(f);
		f = fopen(tmpname, "rb");
		if (entry == 13) { fseek(f, (long)(len / 2), SEEK_SET); memmove((char *)doc, doc + len / 2, len - len / 2); *eff_len = len - len / 2; }
		else { fseek(f, 0, SEEK_END); *eff_len = 0; }
		set = jwks_create_fromfp(f);
		fclose(f);
		return set;
	}
	case 5: case 6: case 7: case 8: {
		FILE *f = fopen(tmpname, "wb");
		if (!f) vh_harness_fail("tmp file");
		fwrite(doc, 1, len, f);
		fclose(f);
		if (entry == 5) return jwks_load_fromfile(NULL, tmpname);
		if (entry == 6) return jwks_create_fromfile(tmpname);
		f = fopen(tmpname, "rb");
		if (entry == 7) { set = jwks_create(GOOD); *before = 1; set = jwks_load_fromfp(set, f); }
		else set = jwks_create_fromfp(f);
		fclose(f);
		return set;
	}
	}
	return NULL;
}

static void exercise_items(jwk_set_t *set)
{
	/* touch every accessor so ASan sees dangling / uninitialised pointers */
	size_t n = jwks_item_count(set);
	for (size_t i = 0; i < n; i++) {
		const jwk_item_t *it = jwks_item_get(set, i);
		const unsigned char *b; size_t bl;
		const char *s;
		if ((s = jwks_item_pem(it))) (void)strlen(s);
		if ((s = jwks_item_kid(it))) (void)strlen(s);
		if ((s = jwks_item_curve(it))) (void)strlen(s);
		if ((s = jwks_item_error_msg(it))) (void)strlen(s);
		if (!jwks_item_key_oct(it, &b, &bl) && bl) { volatile unsigned char x = b[0] ^ b[bl - 1]; (void)x; }
		(void)jwks_item_alg(it); (void)jwks_item_kty(it); (void)jwks_item_use(it); (void)jwks_item_key_ops(it);
		(void)jwks_item_is_private(it); (void)jwks_item_key_bits(it);
	}
	(void)jwks_error_any(set);
}

#ifdef VH_FUZZ_MAIN
int LLVMFuzzerInitialize(int *argc, char ***argv)
{
	(void)argc; (void)argv;
	snprintf(tmpname, sizeof(tmpname), "/tmp/vh_c07_fz_%d.json", (int)getpid());
	return 0;
}
int LLVMFuzzerTestOneInput(const uint8_t *data, size_t size)
{
	size_t eff, before;
	jwk_set_t *set;
	char *doc;
	int entry;
	if (size < 1) return 0;
	entry = data[0] % NENTRY;
	if (entry >= 5 && (data[0] & 0x80)) entry = 0;	/* file based entry points less often */
	doc = malloc(size);
	memcpy(doc, data + 1, size - 1);
	doc[size - 1] = 0;
	set = load_via(entry, doc, size - 1, &eff, &before);
	if (set) { exercise_items(set); jwks_free(set); }
	free(doc);
	return 0;
}
#else
static void dump_templates(uint64_t seed)
{
	/* the last curves are not JOSE curves: the library hands any curve name to the crypto library, which knows them (points wider than P-521's) */
	static const char *SPECS[] = { "oct:32", "oct:7", "rsa:2048", "ec:P-256", "ec:P-384", "ec:P-521", "ec:secp256k1", "okp:Ed25519", "okp:Ed448",
		"ec:sect571r1", "ec:sect571k1", "ec:brainpoolP512r1", "ec:sect409r1", "ec:secp224r1" };
	vh_rng_t r;
	vh_rng_seed(&r, seed, 31337);
	for (size_t i = 0; i < sizeof(SPECS) / sizeof(*SPECS); i++) {
		vh_key_t k;
		char *j;
		if (vh_key_gen(&k, SPECS[i], &r)) vh_harness_fail("keygen");
		for (int priv = 1; priv >= 0; priv--) {
			if (k.kind == VH_K_OCT && !priv) continue;
			j = vh_key_jwk(&k, priv, NULL, NULL, NULL);
			puts(j);
			free(j);
		}
		vh_key_free(&k);
	}
}

int main(int argc, char **argv)
{
	vh_args_t a;
	vh_parse_args(argc, argv, &a);
	if (!strcmp(a.mode, "dump")) { dump_templates(a.seed); return 0; }
	snprintf(tmpname, sizeof(tmpname), "/tmp/vh_c07_%d.json", (int)getpid());
	FILE *f = fopen(a.arg1, "r");
	if (!f) vh_harness_fail("cannot open %s", a.arg1);
	size_t cap = 1 << 22;
	char *line = malloc(cap);
	long idx = 0;
	unsigned long nloads = 0;
	while (fgets(line, (int)cap, f)) {
		size_t ll = strcspn(line, "\r\n");
		char *hx = line;
		int entry = (int)(idx % NENTRY);
		line[ll] = 0;
		if (line[0] == 'E') { entry = atoi(line + 1) % NENTRY; hx = strchr(line, ':') + 1; }
		if (!vh_mine(&a, idx)) { idx++; continue; }
		size_t n = strlen(hx) / 2, eff, before, after;
		char *doc = malloc(n + 1);	/* exact-size copy: over-reads are visible to ASan */
		for (size_t i = 0; i < n; i++) { unsigned v; sscanf(hx + 2 * i, "%2x", &v); doc[i] = (char)v; }
		doc[n] = 0;
		vh_case_begin(idx, "\"entry\":%d,\"len\":%zu", entry, n);
		/* the provider in force alternates (per block of documents): loading, inspecting and freeing a keyring is provider-independent */
		vh_set_prov((int)((idx / 7) & 1));
		jwk_set_t *set = load_via(entry, doc, n, &eff, &before);
		nloads++;
		printf("[\"J\",%ld,%d,", idx, entry);
		vh_put_hex(stdout, doc, eff);
		if (!set) printf(",1,0,0,%zu,0,[]]\n", before);
		else {
			after = jwks_item_count(set);
			exercise_items(set);
			printf(",0,%d,%d,%zu,%zu,[", jwks_error(set), jwks_error_msg(set)[0] != 0, before, after);
			for (size_t i = before; i < after; i++) {
				const jwk_item_t *it = jwks_item_get(set, i);
				const unsigned char *b; size_t bl = 0;
				int has_oct = !jwks_item_key_oct(it, &b, &bl);
				printf("%s[", i > before ? "," : "");
				vh_put_jstr(stdout, jwks_item_kid(it));
				printf(",%d,%d,%d,%d,%d,%d,%d,%d,", jwks_item_error(it), jwks_item_error_msg(it)[0] != 0, (int)jwks_item_kty(it),
				       jwks_item_pem(it) != NULL, has_oct, jwks_item_key_bits(it), (int)jwks_item_alg(it), jwks_item_is_private(it));
				vh_put_jstr(stdout, jwks_item_curve(it));
				printf(",");
				{ char mb[72]; snprintf(mb, sizeof(mb), "%.64s", jwks_item_error_msg(it)); vh_put_jstr(stdout, mb); }
				printf("]");
			}
			printf("]]\n");
			jwks_free(set);
		}
		free(doc);
		idx++;
	}
	fclose(f);
	free(line);
	unlink(tmpname);
	printf("[\"STATS\",%lu]\n", nloads);
	return 0;
}
#endif

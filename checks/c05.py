"""C05 — every generated token verifies and delivers the same header and claims."""
import json
import vf
from checks.c15 import strict_eq


def keys_for(tier):
    if tier == "thorough":
        return "oct:32,oct:48,oct:64,oct:100,oct:33,oct:128,oct:129,oct:300,rsafile:8200,rsafile:16384,rsa:2048,rsa:2050,rsa:2054,rsa:3072,rsa:3074,rsa:4096,ec:P-256,ec:P-384,ec:P-521,ec:secp256k1,okp:Ed25519,okp:Ed448"
    return "oct:32,oct:64,oct:33,oct:129,oct:300,rsafile:8200,rsa:2048,rsa:2050,ec:P-256,ec:P-384,ec:P-521,ec:secp256k1,okp:Ed25519,okp:Ed448"


def judge(path):
    out = dict(n=0, distinct=set(), viol=[], samples=[], c={})
    c = out["c"]

    def cnt(k, n=1):
        c[k] = c.get(k, 0) + n

    with open(path, errors="replace") as fh:
        for line in fh:
            if not line.startswith('["R"'):
                continue
            try:
                ev = json.loads(line)
            except Exception:
                continue
            (_, idx, key, alg, sprov, vprov, route, now, gh, gc, tok_null, gmsg, vrc, vmsg, refvalid, ch, cc, ec_short, toklen, bad_set) = ev[:20]
            off_nbf, off_exp = (ev[20], ev[21]) if len(ev) > 21 else (0, 0)
            out["n"] += 1
            P = ["openssl", "gnutls"]
            unsupported = "secp256k1" in key and (sprov == 1 or vprov == 1)
            wit = dict(idx=idx, key=key, alg=alg, sign_provider=P[sprov], verify_provider=P[vprov], route=route, now=now,
                       given_headers=bytes.fromhex(gh).decode("utf-8", "replace")[:600], given_claims=bytes.fromhex(gc).decode("utf-8", "replace")[:600],
                       generate_msg=gmsg, verify_rc=vrc, verify_msg=vmsg, ref_valid=refvalid)
            if bad_set and ("\\u0000" in bytes.fromhex(gh).decode("utf-8", "replace") or "\\u0000" in bytes.fromhex(gc).decode("utf-8", "replace")):
                cnt("refused.document-with-escaped-nul")      # no token, no round trip to judge
                continue
            if bad_set:
                out["viol"].append(("builder-refused-input:route%d" % route, "a header/claim set call was refused for well-formed input", wit))
                continue
            given_h = json.loads(bytes.fromhex(gh).decode("utf-8")); given_c = json.loads(bytes.fromhex(gc).decode("utf-8"))
            nmem = len(given_h) + len(given_c)
            out["distinct"].add((key, alg, sprov, vprov, route, min(nmem, 8), toklen > 20000, ec_short))
            if unsupported:
                cnt("unjudged_secp256k1_gnutls")
                continue
            if tok_null:
                out["viol"].append(("generate-null:%s:%s" % (alg, P[sprov]), "generate returned NULL for a usable key and admissible alg: " + gmsg, wit))
                continue
            cnt("tokens.%s.%s" % (P[sprov], alg))
            if ec_short == 1:
                cnt("ecdsa_short_rs.%s.%s" % (P[sprov], alg))
            if refvalid != 1:
                out["viol"].append(("token-not-reference-verifiable:%s:%s" % (alg, P[sprov]), "generated token does not verify with the reference verifier", wit))
                continue
            if vrc != 0:
                out["viol"].append(("roundtrip-rejected:%s:sign-%s:verify-%s%s" % (alg, P[sprov], P[vprov], ":short-rs" if ec_short == 1 else ""),
                                    "checker rejected a token generated with the matching key: " + vmsg, wit))
                continue
            cnt("roundtrips_ok")
            try:
                got_h = json.loads(bytes.fromhex(ch).decode("utf-8")); got_c = json.loads(bytes.fromhex(cc).decode("utf-8"))
            except Exception:
                out["viol"].append(("callback-dump-unreadable", "callback dump is not JSON/UTF-8", wit))
                continue
            exp_h = dict(given_h); exp_h["alg"] = alg; exp_h.setdefault("typ", "JWT")
            exp_c = dict(given_c); exp_c["iat"] = now
            if off_nbf:
                exp_c["nbf"] = now + off_nbf
                cnt("roundtrips_with_nbf_offset")
            if off_exp:
                exp_c["exp"] = now + off_exp
                cnt("roundtrips_with_exp_offset")
            if not strict_eq(got_h, exp_h):
                diff = [k for k in set(got_h) | set(exp_h) if k not in got_h or k not in exp_h or not strict_eq(got_h[k], exp_h[k])]
                wit["differing_members"] = diff[:5]
                out["viol"].append(("header-content:route%d" % route, "header read in the checker callback differs from what the builder was given", wit))
            elif not strict_eq(got_c, exp_c):
                diff = [k for k in set(got_c) | set(exp_c) if k not in got_c or k not in exp_c or not strict_eq(got_c[k], exp_c[k])]
                wit["differing_members"] = diff[:5]
                wit["got"] = {k: got_c.get(k) for k in diff[:3]}; wit["want"] = {k: exp_c.get(k) for k in diff[:3]}
                out["viol"].append(("claims-content:route%d" % route, "claims read in the checker callback differ from what the builder was given", wit))
            else:
                cnt("content_equal")
            if len(out["samples"]) < 2 and nmem > 2:
                out["samples"].append(dict(key=key, alg=alg, sign=P[sprov], verify=P[vprov], headers=wit["given_headers"][:200], claims=wit["given_claims"][:200]))
    return out


def run(tier, seed, replay):
    rep = vf.Report("C05", tier, seed)
    rep.rule = ("fresh keys of every type/size (incl. RSA moduli that are not a multiple of 8 bits and oct keys of odd length) x every admissible alg x all four (signing, verifying) provider pairs x random header/claim JSON trees "
                "(depth <= 6, unicode incl. astral, escapes, int64 extremes, reals, empty containers, strings to 64 KiB, hundreds of members) set "
                "through whole-object merge or typed per-member setters, at random clock values; ECDSA gets extra weight so that signatures with a "
                "leading zero byte in r or s occur. distinct = distinct (key, alg, provider pair, route, size bucket, short-r/s) tuples")
    rep.assumptions = ["JSON equality is type-strict, reals by value (Python json as reader)", "secp256k1 on GnuTLS is outside the support matrix"]
    rd = vf.run_dir("C05")
    b = vf.driver("d_c05", "asan", clock=True)
    n = 600000 if tier == "thorough" else 24000
    args = ["--n", n, "--seed", seed, "--arg1", keys_for(tier)]
    if replay and (replay.get("witness") or {}).get("idx") is not None:
        args += ["--only", replay["witness"]["idx"]]
    outs, crashes = vf.run_shards(b, args, vf.NCPU, rd, timeout=3400)
    rep.crash_violations(crashes)
    for r in vf.pmap(judge, [(p,) for p in outs]):
        rep.evaluations += r["n"]
        rep.distinct |= r["distinct"]
        for k, what, wit in r["viol"]:
            rep.violation(k, what, wit)
        for s in r["samples"]:
            rep.sample(s)
        for k, v in r["c"].items():
            rep.count(k, v)
    c = rep.counters
    if not replay:
        short = sum(v for k, v in c.items() if k.startswith("ecdsa_short_rs.") and not k.endswith("ES512"))   # P-521: top byte has one bit
        rep.extra["ecdsa_signatures_with_leading_zero_r_or_s"] = short
        vf.need(rep, short >= (200 if tier == "thorough" else 20), "too few ECDSA signatures with a short r or s observed (%d)" % short)
        for prov in ("openssl", "gnutls"):
            for alg in ("HS256", "HS512", "RS256", "PS384", "ES256", "ES384", "ES512", "EdDSA"):
                vf.need(rep, c.get("tokens.%s.%s" % (prov, alg), 0) > 20, "too few %s tokens signed by %s" % (alg, prov))
        vf.need(rep, c.get("content_equal", 0) > 1000, "too few content comparisons")
    return rep

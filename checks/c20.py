"""C20 — command-line tools mirror the library: exit status, tokens and key conversion."""
import hmac, hashlib
import base64, json, os, random, re, subprocess, shutil
from concurrent.futures import ThreadPoolExecutor
import vf

B64U = re.compile(r"^[A-Za-z0-9_-]+$")
TOKEN_RE = re.compile(r"[A-Za-z0-9_-]{8,}\.[A-Za-z0-9_-]{2,}\.[A-Za-z0-9_-]*")


def run(tier, seed, replay):
    rep = vf.Report("C20", tier, seed)
    thorough = tier == "thorough"
    rep.rule = ("tool invocations of the ASan build: jwt-verify on token lists of length 1..1024 with 0..n failing tokens at random positions, "
                "as arguments and on stdin, with tokens from 100 bytes to 64 KiB; jwt-generate -> jwt-verify for every key type with every "
                "documented spelling of -a/-k/-q/-n/-c/-j/-v/-p (quiet, default, verbose and --print output modes; the generator's stdout is also piped as it is into jwt-verify -) (option lists cross-checked against --help); key2jwk -> library import -> "
                "jwk2key -> component comparison for fresh PEM/bin keys of every type, with EC keys generated until leading-zero coordinates "
                "and private scalars occurred. distinct = distinct (tool, scenario descriptor) tuples")
    rep.assumptions = ["process exit status and stdout are the observables; key identity is judged by drivers/d_c20.c with OpenSSL directly",
                       "blank lines and CRLF line ends on stdin are sent but unjudged", "--print is exercised with the command cat only"]
    rd = vf.run_dir("C20")
    bdir = vf.build("asan")
    T = {t: os.path.join(bdir, "tools", t) for t in ("jwt-verify", "jwt-generate", "key2jwk", "jwk2key")}
    for t, p in T.items():
        if not os.path.exists(p):
            raise vf.HarnessFailure("tool %s was not built" % t)
    helper = vf.driver("d_c20", "asan")
    env = dict(os.environ); env.update(vf.SAN_ENV)
    env["ASAN_OPTIONS"] = env["ASAN_OPTIONS"].replace("detect_leaks=1", "detect_leaks=0")
    env.pop("JWT_CRYPTO", None)
    rng = random.Random(seed)
    kd = os.path.join(rd, "keys"); os.makedirs(kd)

    def sh(cmd, inp=None, cwd=None, timeout=300):
        p = subprocess.run(cmd, input=inp, capture_output=True, env=env, cwd=cwd, timeout=timeout)
        rep.evaluations += 1
        err = p.stderr.decode("latin-1")
        if "Sanitizer" in err or "runtime error:" in err:
            rep.violation("tool-sanitizer:%s:%s" % (os.path.basename(cmd[0]), vf.san_key(err) or "?"), "sanitizer report in a tool run",
                          dict(cmd=[c[:200] for c in cmd[:12]], stderr=err[-2500:]))
        return p.returncode, p.stdout.decode("latin-1"), err

    # ---- key material -------------------------------------------------------------------------------------------
    rc, out, err = sh([helper, "--mode", "genkeys", "--arg1", kd, "--n", "3" if thorough else "1", "--seed", str(seed), "--tier", tier])
    if rc != 0:
        raise vf.HarnessFailure("key generation failed: " + err[-800:])
    keys = [json.loads(l) for l in out.splitlines() if l.startswith('["KEY"')]
    rep.count("keys", len(keys))
    rep.count("ec_keys_with_leading_zero_coordinate", sum(k[6] for k in keys))
    rep.count("ec_keys_with_leading_zero_private_scalar", sum(k[7] for k in keys))

    # ---- (C) documented options ----------------------------------------------------------------------------------
    KNOWN = {"jwt-verify": {"h", "l", "a", "p", "k", "q", "v"}, "jwt-generate": {"h", "l", "a", "p", "n", "k", "c", "j", "q", "v"},
             "key2jwk": {"h", "q", "l", "k", "m", "o"}, "jwk2key": {"h", "r", "d"}}
    longs = {}
    for t in T:
        rc, out, err = sh([T[t], "--help"])
        doc = dict(re.findall(r"^\s+-(\w), --([\w-]+)", out + err, re.M))
        longs[t] = doc
        rep.distinct.add(("help", t, tuple(sorted(doc))))
        if set(doc) - KNOWN[t]:
            rep.inconclusive.append("%s documents options this check does not know: %s" % (t, sorted(set(doc) - KNOWN[t])))
        if rc != 0:
            rep.violation("help-exit:%s" % t, "--help exits non-zero", dict(rc=rc))

    # ---- (B) generate -> verify with every spelling ---------------------------------------------------------------
    def spellings(short, long_, val):
        return [["-" + short, val], ["--" + long_, val], ["--%s=%s" % (long_, val)]]

    jobs = []
    for k in keys:
        name, kind, bits, crv, alg = k[1:6]
        if alg == "ES256K" and False:
            continue
        with_alg = os.path.join(kd, name + "_alg.jwk.json")
        no_alg = os.path.join(kd, name + ".jwk.json")
        pub = os.path.join(kd, name + "_pub.jwk.json")
        if name.startswith("rsa"):
            alg_for_noalg = rng.choice(["RS256", "RS384", "RS512", "PS256", "PS384", "PS512"])
        else:
            alg_for_noalg = alg
        variants = []
        # key carries alg: no -a needed
        for ks in spellings("k", longs["jwt-generate"].get("k", "key"), with_alg):
            variants.append((ks, [], with_alg, []))
        # key without alg: -a in all spellings on both tools
        for i, asp in enumerate(spellings("a", longs["jwt-generate"].get("a", "algorithm"), alg_for_noalg)):
            variants.append((["-k", no_alg], asp, no_alg, spellings("a", longs["jwt-verify"].get("a", "algorithm"), alg_for_noalg)[i]))
        extras = [[], ["-n"], ["--no-iat"], ["-c", "s:iss=me"], ["--claim", "i:n=42"], ["--claim=b:admin=true"], ["-j", '{"a":[1,2],"b":"c"}'],
                  ["--json", '{"x":1}'], ["-c", "s:a=1", "-c", "i:b=2", "-n"],
                  ["-c", "i:big=4294967296", "--claim", "i:neg=-5000000000", "--claim=i:max=9223372036854775807"],
                  ["-c", "i:i31=2147483648", "-c", "i:m31=-2147483649", "-c", "i:zero=0", "-n"],
                  ["-c", "b:t=true", "--claim", "b:f=false", "--claim=b:z=0", "-c", "b:F=False", "-c", "b:one=1", "-c", "b:y=yes"],
                  ["--json", '{"deep":{"a":[1,{"b":null}]},"r":1.5,"s":"x y"}', "-c", "s:sub=someone", "-c", "i:uid=5000000000"]]
        for vi, (ks, asp, vkey, vasp) in enumerate(variants):
            ex = extras[(vi + len(name)) % len(extras)]
            # output modes: quiet (both spellings), default, verbose (both spellings), verbose/default with a --print command
            q = [["-q"], ["--quiet"], [], ["-v"], ["--verbose", "--print=cat"], ["-v", "-p", "cat"], ["-p", "cat"], ["--verbose"]][(vi + 3 * len(name)) % 8]
            jobs.append(dict(name=name, gen=[T["jwt-generate"]] + q + ks + asp + ex, vkey=vkey, vasp=vasp, desc="%s|%s|%s" % (" ".join(a.split("/")[-1] for a in ks), " ".join(asp), " ".join(ex)),
                             pub=pub if os.path.exists(pub) else None))

    def gen_verify(j):
        res = dict(j)
        p = p0 = subprocess.run(j["gen"], capture_output=True, env=env)
        res["gen_rc"] = p.returncode; res["gen_out"] = p.stdout.decode("latin-1"); res["gen_err"] = p.stderr.decode("latin-1")[-600:]
        m = TOKEN_RE.search(res["gen_out"])
        res["token"] = m.group(0) if m else None
        res["verifies"] = []
        # the payload says what the claim options say (documented forms only: i decimal, s, b with the f/F/0 rule, --json members)
        res["payload_problem"] = None
        if res["token"]:
            want = {}
            g = j["gen"]
            for i_, a_ in enumerate(g):
                spec = None
                if a_ in ("-c", "--claim") and i_ + 1 < len(g):
                    spec = g[i_ + 1]
                elif a_.startswith("--claim="):
                    spec = a_[8:]
                elif a_ in ("-j", "--json") and i_ + 1 < len(g):
                    for k_, v_ in json.loads(g[i_ + 1]).items():
                        want.setdefault(k_, v_)
                if spec:
                    t_, rest = spec.split(":", 1)
                    k_, v_ = rest.split("=", 1)
                    want[k_] = int(v_) if t_ == "i" else (v_ if t_ == "s" else (not v_[:1] in ("f", "F", "0")))
            try:
                seg = res["token"].split(".")[1]
                got = json.loads(base64.urlsafe_b64decode(seg + "=" * (-len(seg) % 4)))
            except Exception as e:
                got = None
                res["payload_problem"] = "payload does not decode: %s" % e
            if got is not None:
                for k_, v_ in want.items():
                    if k_ not in got or type(got[k_]) is not type(v_) or got[k_] != v_:
                        res["payload_problem"] = "claim %r: options say %r, payload has %r" % (k_, v_, got.get(k_, "<absent>"))
                        break
                no_iat = any(a_ in ("-n", "--no-iat") for a_ in g)
                if res["payload_problem"] is None and (("iat" in got) == no_iat) and "iat" not in want:
                    res["payload_problem"] = "iat %s although %s" % ("present" if "iat" in got else "absent", "--no-iat given" if no_iat else "not disabled")
        if res["token"]:
            vks = [["-k", j["vkey"]], ["--key", j["vkey"]], ["--key=" + j["vkey"]]]
            for i, vk in enumerate(vks):
                cmd = [T["jwt-verify"], "-q" if i % 2 else "--quiet"] + vk + j["vasp"] + [res["token"]]
                p = subprocess.run(cmd, capture_output=True, env=env)
                res["verifies"].append((" ".join(c.split("/")[-1] for c in (vk + j["vasp"])), p.returncode, p.stderr.decode("latin-1")[-300:] + p.stdout.decode("latin-1")[-300:]))
            # what jwt-generate wrote to stdout, piped as it is into jwt-verify's stdin
            cmd = [T["jwt-verify"], "-q", "-k", j["vkey"]] + j["vasp"] + ["-"]
            p = subprocess.run(cmd, input=p0.stdout, capture_output=True, env=env)
            res["verifies"].append(("stdout-piped-to-stdin " + " ".join(j["vasp"]), p.returncode, p.stderr.decode("latin-1")[-300:] + " | generate stdout: " + res["gen_out"][:300]))
            # verbose / print spellings on the verifying side: the exit status is the same
            for vo in (["-v"], ["--verbose", "--print=cat"], ["-v", "-p", "cat"], []):
                cmd = [T["jwt-verify"]] + vo + ["--key=" + j["vkey"]] + j["vasp"] + [res["token"]]
                p = subprocess.run(cmd, capture_output=True, env=env)
                res["verifies"].append(("verify-output-mode " + " ".join(vo + j["vasp"]), p.returncode, p.stderr.decode("latin-1")[-300:]))
            if j["pub"]:
                cmd = [T["jwt-verify"], "-q", "-k", j["pub"]] + (j["vasp"] if j["vasp"] else ["--algorithm", "AUTO"]) + [res["token"]]
                if not j["vasp"]:
                    cmd = None    # public JWK has no alg; covered by the -a variants
                if cmd:
                    p = subprocess.run(cmd, capture_output=True, env=env)
                    res["verifies"].append(("public-key " + " ".join(j["vasp"]), p.returncode, p.stderr.decode("latin-1")[-300:]))
        return res

    with ThreadPoolExecutor(vf.NCPU) as ex:
        results = list(ex.map(gen_verify, jobs))
    for r in results:
        rep.evaluations += 1 + len(r["verifies"])
        kindname = r["name"].rsplit("_", 1)[0] if r["name"].startswith("ec_") else r["name"]
        rep.distinct.add(("genverify", kindname, r["desc"].split("|", 1)[1]))
        if r["gen_rc"] != 0 or not r["token"]:
            aform = "long-eq" if any(a.startswith("--algorithm=") for a in r["gen"]) else "long" if "--algorithm" in r["gen"] else "short" if "-a" in r["gen"] else "none"
            rep.violation("jwt-generate-fails:%s:alg-option-%s" % (kindname, aform), "jwt-generate failed or printed no token",
                          dict(cmd=[c[-80:] for c in r["gen"]], rc=r["gen_rc"], stderr=r["gen_err"], stdout=r["gen_out"][-300:]))
            continue
        rep.count("tokens_generated_by_tool")
        if r.get("payload_problem"):
            rep.violation("jwt-generate-payload-differs-from-options:%s" % ("int" if "i:" in r["desc"] else "bool" if "b:" in r["desc"] else "json" if "json" in r["desc"] or "-j" in r["desc"] else "other"),
                          "the generated token's payload is not what the claim options say: %s" % r["payload_problem"],
                          dict(cmd=[c[-80:] for c in r["gen"]], token=r["token"][:300]))
        else:
            rep.count("payloads_match_options")
        for desc, rc, err in r["verifies"]:
            if rc != 0:
                aform = "long-eq" if "--algorithm=" in desc else "long" if "--algorithm " in desc + " " else "short" if "-a " in desc + " " else "none"
                rep.violation("jwt-verify-rejects-generated-token:%s:alg-option-%s" % (kindname, aform),
                              "jwt-verify (%s) rejected a token jwt-generate made with the same key file" % desc,
                              dict(generate=[c[-80:] for c in r["gen"]], verify_options=desc, rc=rc, output=err))
            else:
                rep.count("tool_roundtrips_ok")

    # ---- (A) jwt-verify exit status over token lists ------------------------------------------------------------------
    hkey = os.path.join(kd, "oct_32_alg.jwk.json")
    good = []
    for i in range(6):
        rc, out, err = sh([T["jwt-generate"], "-q", "-k", hkey, "-c", "i:n=%d" % i])
        m = TOKEN_RE.search(out)
        if rc != 0 or not m:
            raise vf.HarnessFailure("cannot make HS256 tokens with jwt-generate: %s" % err[-400:])
        good.append(m.group(0))
    bad = [g[:-2] + ("AA" if not g.endswith("AA") else "BB") for g in good] + ["garbage", "a.b.c", good[0].replace(".", "", 1)]
    sizes = [1, 2, 3, 10, 255, 256, 257, 511, 512, 513, 1024]
    cases = []
    for n in sizes:
        for f in sorted(set(x for x in (0, 1, n - 1, n, 256, 512, n // 2) if 0 <= x <= n)):
            for mode in ("args", "stdin"):
                cases.append((n, f, mode))
    if not thorough:
        cases = [c for c in cases if c[0] <= 513 or c[1] in (0, 512, 1024)]
    # failure counts at the width of a 16-bit counter (stdin only: beyond the argument size limit)
    cases += [(65536, 65536, "stdin"), (65537, 65536, "stdin"), (65792, 65792, "stdin")] + ([(70000, 65536, "stdin"), (131072, 131072, "stdin")] if thorough else [])

    def verify_list(c):
        n, f, mode = c
        r = random.Random(seed * 100003 + n * 1009 + f * 7 + (mode == "stdin"))
        toks = [r.choice(good) for _ in range(n)]
        for pos in r.sample(range(n), f):
            toks[pos] = r.choice(bad)
        if mode == "args":
            p = subprocess.run([T["jwt-verify"], "-q", "-k", hkey] + toks, capture_output=True, env=env)
        else:
            p = subprocess.run([T["jwt-verify"], "-q", "-k", hkey, "-"], input=("\n".join(toks) + "\n").encode(), capture_output=True, env=env)
        return c, p.returncode, p.stderr.decode("latin-1")[-300:]

    with ThreadPoolExecutor(vf.NCPU) as ex:
        for (n, f, mode), rc, err in ex.map(verify_list, cases):
            rep.evaluations += 1
            rep.distinct.add(("verify-list", n, f, mode))
            rep.count("verify_lists")
            if "Sanitizer" in err:
                rep.violation("tool-sanitizer:jwt-verify:list", "sanitizer report", dict(n=n, failing=f, mode=mode, stderr=err))
            if f == 0 and rc != 0:
                rep.violation("jwt-verify-nonzero-without-failures:%s" % mode, "jwt-verify exits %d although every token verifies" % rc, dict(n=n, mode=mode, stderr=err))
            if f > 0 and rc == 0:
                rep.violation("jwt-verify-exit0-with-failures:%s:failing=%d" % (mode, f), "jwt-verify exits 0 although %d of %d tokens fail" % (f, n), dict(n=n, failing=f, mode=mode))
    # the library as the oracle: hand-made tokens (header and payload serialised in many valid ways, and invalid ones) get the library's own
    # verdict from the helper; jwt-verify must exit 0 exactly for those the library accepts (one by one as argument and on stdin)
    kbytes = base64.urlsafe_b64decode(json.load(open(hkey))["k"] + "==")
    kalg = json.load(open(hkey)).get("alg", "HS256")
    dg = {"HS256": hashlib.sha256, "HS384": hashlib.sha384, "HS512": hashlib.sha512}[kalg]
    b64 = lambda b: base64.urlsafe_b64encode(b).rstrip(b"=").decode()
    def mk(h, p_, sig=None):
        msg = b64(h.encode()) + "." + b64(p_.encode())
        s_ = hmac.new(kbytes, msg.encode(), dg).digest() if sig is None else sig
        return msg + "." + b64(s_)
    HS = ['{"alg":"%s"}', '{"alg":"%s","typ":"JWT"}', '{"typ":"JWT","alg":"%s"}', '{ "alg":"%s" }', '{"alg" : "%s"}', '{\n  "alg": "%s",\n  "typ": "JWT"\n}',
          '{\t"alg":"%s"}', ' {"alg":"%s"}', '{"alg":"%s"} ', '\n{"alg":"%s"}\n', '{"alg":"%s","kid":"k1","cty":"x","x":[1,2,{"y":null}]}', '{"a":1,"alg":"%s"}',
          '{"alg":"%s","crit":["exp"]}', '{"alg":"\\u00%02x%s"}', '{"\\u0061lg":"%s"}', '{"alg":"%s","b64":true}', '{"zzz":{"alg":"none"},"alg":"%s"}',
          '{"alg":"%s","typ":null}', '{"alg":"%s","n":1.5e3}', '[{"alg":"%s"}]', '{"alg":["%s"]}', '{"alg":"%s"', '{"ALG":"%s"}', '{"alg":"%s ","typ":"JWT"}', '{}', '', 'null']
    PS_ = ['{"iss":"x"}', '{}', '{ "iss" : "x" }', '{\n "iss": "x"\n}', ' {"iss":"x"}', '{"iss":"x"} ', '{"n":1e2,"a":[],"o":{}}', '{"exp":99999999999}', '{"exp":1}', '{"nbf":99999999999}',
           '[1]', '"s"', '{"iss":"x"', '', '{"iss":"\\u00e9\\ud83d\\ude00"}']
    htoks = []
    for hi, h in enumerate(HS):
        if h.count("%") == 2:
            h = h % (ord(kalg[0]), kalg[1:])
        elif "%s" in h:
            h = h % kalg
        for pi, p_ in enumerate(PS_ if hi < 12 else PS_[:3]):
            htoks.append(mk(h, p_))
    htoks.append(mk(HS[0] % kalg, PS_[0], b"\0" * dg().digest_size))
    htoks.append(mk(HS[0] % kalg, PS_[0])[:-1])
    htoks.append(mk('{"alg":"none"}', PS_[0], b""))
    htoks = [x for x in dict.fromkeys(htoks) if "\n" not in x]
    tf = os.path.join(rd, "handmade_tokens.txt")
    open(tf, "w").write("\n".join(htoks) + "\n")
    rc, out, err = sh([helper, "--mode", "verdicts", "--arg1", hkey, "--arg2", tf])
    lib = {}
    for l in out.splitlines():
        if l.startswith('["VD"'):
            e_ = json.loads(l); lib[e_[1]] = e_[2]
    if rc != 0 or len(lib) != len(htoks):
        raise vf.HarnessFailure("library verdict helper failed: rc %d, %d of %d verdicts: %s" % (rc, len(lib), len(htoks), err[-300:]))
    rep.count("handmade_tokens", len(htoks)); rep.count("handmade_tokens_library_accepts", sum(1 for v in lib.values() if v == 0))
    vf.need(rep, sum(1 for v in lib.values() if v == 0) >= 20 and sum(1 for v in lib.values() if v != 0) >= 20, "hand-made tokens do not exercise both verdicts")
    def one_tok(i):
        a_ = subprocess.run([T["jwt-verify"], "-q", "-k", hkey, htoks[i]], capture_output=True, env=env)
        b_ = subprocess.run([T["jwt-verify"], "-q", "-k", hkey, "-"], input=(htoks[i] + "\n").encode(), capture_output=True, env=env)
        return i, a_.returncode, b_.returncode, (a_.stderr + b_.stderr).decode("latin-1")[-300:]
    with ThreadPoolExecutor(vf.NCPU) as ex:
        for i, ra, rb, err in ex.map(one_tok, range(len(htoks))):
            rep.evaluations += 2
            hdr_txt = base64.urlsafe_b64decode(htoks[i].split(".")[0] + "===").decode("latin-1")[:60]
            rep.distinct.add(("handmade", i))
            if "Sanitizer" in err:
                rep.violation("tool-sanitizer:jwt-verify:handmade", "sanitizer report", dict(token=htoks[i], stderr=err))
            for mode_, r_ in (("args", ra), ("stdin", rb)):
                if (r_ == 0) != (lib[i] == 0):
                    rep.violation("jwt-verify-disagrees-with-library:%s:%s" % (mode_, "tool-rejects" if r_ else "tool-accepts"),
                                  "jwt-verify exits %d for a token on which jwt_checker_verify (same key, same pin) returns %d" % (r_, lib[i]),
                                  dict(token=htoks[i], header=hdr_txt, mode=mode_))
    all_ok = [htoks[i] for i in range(len(htoks)) if lib[i] == 0]
    p_ = subprocess.run([T["jwt-verify"], "-q", "-k", hkey, "-"], input=("\n".join(all_ok) + "\n").encode(), capture_output=True, env=env)
    if p_.returncode != 0:
        rep.violation("jwt-verify-disagrees-with-library:stdin-list:tool-rejects", "jwt-verify exits %d on the list of all hand-made tokens the library accepts" % p_.returncode, dict(n=len(all_ok)))
    # -a/--algorithm against keys with and without an alg of their own: the tool passes (option alg, key) to jwt_checker_setkey; whatever the
    # library then says (refusal at set-up, verdict per token) is what the tool's exit status must say
    ALGNUM = {"HS256": 1, "HS384": 2, "HS512": 3}
    kfiles = [os.path.join(kd, n) for n in ("oct_64_alg.jwk.json", "oct_64.jwk.json", "oct_100_alg.jwk.json", "oct_32_alg.jwk.json") if os.path.exists(os.path.join(kd, n))]
    optjobs = []
    for kf in kfiles:
        kj = json.load(open(kf))
        kb_ = base64.urlsafe_b64decode(kj["k"] + "==")
        toks_ = []
        for an, dg_ in (("HS256", hashlib.sha256), ("HS384", hashlib.sha384), ("HS512", hashlib.sha512)):
            msg_ = b64(('{"alg":"%s"}' % an).encode()) + "." + b64(b'{"iss":"opt"}')
            toks_.append(msg_ + "." + b64(hmac.new(kb_, msg_.encode(), dg_).digest()))
        tfile = os.path.join(rd, "opt_tokens_%s.txt" % os.path.basename(kf))
        open(tfile, "w").write("\n".join(toks_) + "\n")
        for opt in (None, "HS256", "HS384", "HS512"):
            for sp_i, sp in enumerate(([[]] if opt is None else spellings("a", longs["jwt-verify"].get("a", "algorithm"), opt))):
                optjobs.append((kf, kj.get("alg"), opt, sp, toks_, tfile))
    def opt_job(j):
        kf, kalg_, opt, sp, toks_, tfile = j
        h_ = subprocess.run([helper, "--mode", "verdicts", "--arg1", kf, "--arg2", tfile, "--n", str(ALGNUM.get(opt, 0))], capture_output=True, env=env)
        lines_ = [json.loads(l) for l in h_.stdout.decode().splitlines() if l.startswith("[")]
        refused = any(l[0] == "VS" and l[1] for l in lines_)
        verd = {l[1]: l[2] for l in lines_ if l[0] == "VD"}
        res_ = []
        for i_, tk in enumerate(toks_):
            p_ = subprocess.run([T["jwt-verify"], "-q", "-k", kf] + sp + [tk], capture_output=True, env=env)
            res_.append(p_.returncode)
        return j, h_.returncode, refused, verd, res_
    with ThreadPoolExecutor(vf.NCPU) as ex:
        for (kf, kalg_, opt, sp, toks_, tfile), hrc, refused, verd, res_ in ex.map(opt_job, optjobs):
            nokeyalg_noopt = kalg_ is None and opt is None      # usage error of the tool, not a library matter
            for i_, r_ in enumerate(res_):
                rep.evaluations += 1
                rep.distinct.add(("alg-option", os.path.basename(kf), opt, i_))
                rep.count("alg_option_cells")
                if hrc != 0 or (not refused and i_ not in verd):
                    raise vf.HarnessFailure("verdict helper failed for %s -a %s" % (kf, opt))
                want_ok = (not refused) and (not nokeyalg_noopt) and verd.get(i_) == 0
                if (r_ == 0) != want_ok:
                    rep.violation("jwt-verify-alg-option:%s:%s" % ("key-has-alg" if kalg_ else "key-without-alg", "tool-accepts" if r_ == 0 else "tool-rejects"),
                                  "jwt-verify %s with key alg %s exits %d on an %s token; the library %s" % (" ".join(sp) or "(no -a)", kalg_, r_, ("HS256", "HS384", "HS512")[i_],
                                  "refuses this (alg, key) pair at setkey" if refused else "returns %s" % verd.get(i_)),
                                  dict(key=os.path.basename(kf), key_alg=kalg_, option=sp, token_alg=("HS256", "HS384", "HS512")[i_], exit=r_))
    # stdin lines of every length around the read-buffer sizes (BUFSIZ = 8192 and its doublings), each followed by a failing line and, separately,
    # by a good one: a line is one token, whatever its length
    def sized_token(total):
        # an HS token of exactly `total` characters: the payload pad makes up the difference (3 payload bytes = 4 characters)
        siglen = len(b64(b"\0" * dg().digest_size))
        for hdr_ in ('{"alg":"%s"}', '{"alg":"%s" }', '{ "alg":"%s" }', '{"alg":"%s","typ":"JWT"}'):
            htxt = hdr_ % kalg
            fixed = len(b64(htxt.encode())) + 1 + 1 + siglen
            want_p = total - fixed
            if want_p <= 0:
                return None
            for nbytes in ((want_p * 3) // 4, (want_p * 3) // 4 + 1):
                base_ = '{"iss":"sz","p":"'
                pad = nbytes - len(base_) - 2
                if pad < 0:
                    continue
                tk_ = mk(htxt, base_ + "x" * pad + '"}')
                if len(tk_) == total:
                    return tk_
        return None
    size_jobs = []
    for center in (8192, 16384, 32768, 65536):
        for L_ in range(center - 6, center + 4):
            tk_ = sized_token(L_)
            if tk_:
                size_jobs.append((L_, tk_))
    rep.count("stdin_exact_length_tokens", len(size_jobs))
    vf.need(rep, len(size_jobs) >= 38, "could not build tokens of the exact lengths around the read-buffer sizes")
    def size_job(j):
        L_, tk_ = j
        a_ = subprocess.run([T["jwt-verify"], "-q", "-k", hkey, "-"], input=(tk_ + "\nnot.a.token\n").encode(), capture_output=True, env=env)
        b_ = subprocess.run([T["jwt-verify"], "-q", "-k", hkey, "-"], input=(tk_ + "\n" + good[0] + "\n").encode(), capture_output=True, env=env)
        c_ = subprocess.run([T["jwt-verify"], "-q", "-k", hkey, "-"], input=(good[0] + "\n" + tk_ + "\nnot.a.token\n" + good[1] + "\n").encode(), capture_output=True, env=env)
        return L_, a_.returncode, b_.returncode, c_.returncode
    with ThreadPoolExecutor(vf.NCPU) as ex:
        for L_, ra, rb, rc_ in ex.map(size_job, size_jobs):
            rep.evaluations += 3
            rep.distinct.add(("stdin-exact-length", L_))
            if ra == 0 or rc_ == 0:
                rep.violation("jwt-verify-exit0-with-failures:stdin:after-line-of-buffer-length", "a %d-character token line followed by a failing line: exit %d / %d, expected non-zero" % (L_, ra, rc_), dict(length=L_))
            if rb != 0:
                rep.violation("jwt-verify-nonzero-without-failures:stdin:line-of-buffer-length", "a valid %d-character token line followed by a valid one: exit %d" % (L_, rb), dict(length=L_))
    # token sizes as argument and on stdin
    for size in ([200, 4000, 8100, 8192, 8300, 12000, 65000] if thorough else [200, 8100, 12000, 40000]):
        rc, out, err = sh([T["jwt-generate"], "-q", "-k", hkey, "-c", "s:pad=" + "p" * size])
        m = TOKEN_RE.search(out)
        if rc != 0 or not m:
            rep.violation("jwt-generate-fails:large-claim:%d" % size, "jwt-generate failed for a large claim", dict(rc=rc, stderr=err[-300:]))
            continue
        tok = m.group(0)
        rc1, _, e1 = sh([T["jwt-verify"], "-q", "-k", hkey, tok])
        rc2, _, e2 = sh([T["jwt-verify"], "-q", "-k", hkey, "-"], inp=(tok + "\n").encode())
        rc3, _, e3 = sh([T["jwt-verify"], "-q", "-k", hkey, "-"], inp=(good[0] + "\n" + tok + "\n" + good[1] + "\n").encode())
        rep.distinct.add(("token-size", size))
        if rc1 != 0:
            rep.violation("jwt-verify-rejects-large-token:args", "valid %d-byte token rejected as argument" % len(tok), dict(size=len(tok), stderr=e1[-300:]))
        if rc2 != 0 or rc3 != 0:
            rep.violation("jwt-verify-rejects-large-token:stdin:%s" % ("over-BUFSIZ" if len(tok) >= 8191 else "under-BUFSIZ"),
                          "valid %d-byte token verifies as argument (rc %d) but not on stdin (rc %d / %d)" % (len(tok), rc1, rc2, rc3), dict(size=len(tok)))
    # last line without a trailing newline: still a supplied token
    for label, data, must_pass in (("good", good[0], True), ("good-then-good", good[0] + "\n" + good[1], True), ("bad", bad[0], False),
                                   ("good-plus-junk-char", good[0] + "A", False), ("good-then-bad", good[0] + "\n" + bad[1], False)):
        rc, _, e = sh([T["jwt-verify"], "-q", "-k", hkey, "-"], inp=data.encode())
        rep.distinct.add(("stdin-no-final-newline", label))
        rep.count("stdin_unterminated_cases")
        if must_pass != (rc == 0):
            rep.violation("jwt-verify-stdin-unterminated-last-line:%s" % label,
                          "stdin whose last line has no trailing newline (%s): exit %d, expected %s" % (label, rc, "0" if must_pass else "non-zero"), dict(stderr=e[-300:]))
    # unjudged stdin shapes (recorded only)
    for label, data in (("blank-line", good[0] + "\n\n" + good[1] + "\n"), ("crlf", good[0] + "\r\n")):
        rc, _, _ = sh([T["jwt-verify"], "-q", "-k", hkey, "-"], inp=data.encode())
        rep.count("unjudged_stdin_%s_rc%d" % (label, rc))
    # --print: the command runs once for the header and once for the payload; a non-zero status of either fails the token (usage text)
    rc, out, err = sh([T["jwt-generate"], "-q", "-k", hkey, "-c", "s:sub=alice"])
    m = TOKEN_RE.search(out)
    if rc == 0 and m:
        ptok = m.group(0)
        for label, cmd, vpass, gpass in (("fails-on-header-only", "grep -q sub", False, False), ("fails-on-payload-only", "grep -q typ", False, False),
                                         ("passes-both", "grep -q {", True, True), ("fails-both", "false", False, False),
                                         ("passes-both-cat", "cat", True, True)):
            for sp in (["-p", cmd], ["--print=" + cmd], ["--print", cmd]):
                rc1, o1, e1 = sh([T["jwt-verify"], "-v", "-k", hkey] + sp + [ptok])
                rc3, o3, e3 = sh([T["jwt-verify"], "-v", "-k", hkey] + sp + [good[0], ptok, good[1]])
                rc2, o2, e2 = sh([T["jwt-generate"], "-v", "-k", hkey, "-c", "s:sub=alice"] + sp)
                rep.evaluations += 3
                rep.count("print_command_cases")
                rep.distinct.add(("print-status", label, sp[0].split("=")[0]))
                if (rc1 == 0) != vpass or (rc3 == 0) != (vpass and label.startswith("passes")):
                    rep.violation("jwt-verify-print-status:%s" % label, "jwt-verify -v %s: exit %d / %d (list), the command %s" % (sp[0], rc1, rc3, label),
                                  dict(cmd=cmd, spelling=sp[0], rc_single=rc1, rc_list=rc3, stderr=e1[-200:]))
                tokout = TOKEN_RE.search(o2)
                if ((rc2 == 0) != gpass) or (bool(tokout) != gpass):
                    rep.violation("jwt-generate-print-status:%s" % label, "jwt-generate -v %s: exit %d, token printed: %s, the command %s" % (sp[0], rc2, bool(tokout), label),
                                  dict(cmd=cmd, spelling=sp[0], rc=rc2, stdout=o2[:200]))
        # many tokens with a --print command under a small descriptor limit: every token costs two runs of the command, none may cost a descriptor
        import resource
        def lim():
            resource.setrlimit(resource.RLIMIT_NOFILE, (128, resource.getrlimit(resource.RLIMIT_NOFILE)[1]))
        for n_, mode in ((100, "args"), (300, "stdin"), (300, "args")):
            toks = [ptok, good[0], good[1]] * (n_ // 3)
            if mode == "args":
                p_ = subprocess.run([T["jwt-verify"], "-v", "-k", hkey, "-p", "cat"] + toks, capture_output=True, env=env, preexec_fn=lim)
            else:
                p_ = subprocess.run([T["jwt-verify"], "--verbose", "--key=" + hkey, "--print=cat", "-"], input=("\n".join(toks) + "\n").encode(), capture_output=True, env=env, preexec_fn=lim)
            rep.evaluations += 1
            rep.count("print_many_tokens_cases")
            rep.distinct.add(("print-many", n_, mode))
            if p_.returncode != 0:
                rep.violation("jwt-verify-print-many-tokens:%s" % mode, "jwt-verify -v -p cat over %d valid tokens (descriptor limit 128) exits %d" % (len(toks), p_.returncode),
                              dict(n=len(toks), mode=mode, stderr=p_.stderr.decode("latin-1")[-300:]))
    else:
        rep.violation("jwt-generate-fails:print-stage", "cannot make the token for the --print stage", dict(rc=rc, stderr=err[-300:]))
    # key-less (alg none) lists
    rc, out, err = sh([T["jwt-generate"], "-q", "-c", "s:iss=x"])
    m = TOKEN_RE.search(out)
    if rc == 0 and m:
        nt = m.group(0)
        for n, f in ((1, 0), (3, 1), (256, 256), (300, 0)):
            toks = [nt] * (n - f) + ["x.y."] * f
            rc, _, e = sh([T["jwt-verify"], "-q"] + toks)
            if (f == 0) != (rc == 0):
                rep.violation("jwt-verify-exit:none:failing=%d" % f, "key-less jwt-verify exit %d with %d failing of %d" % (rc, f, n), dict(stderr=e[-300:]))
    else:
        rep.violation("jwt-generate-fails:none", "jwt-generate without key failed", dict(rc=rc, stderr=err[-300:]))

    # ---- (D) key2jwk -> import -> jwk2key ------------------------------------------------------------------------------
    def convert(k):
        name, kind, bits, crv = k[1:5]
        res = []
        srcs = [(name + ".bin", None)] if name.startswith("oct") else [(name + ".pem", True), (name + "_pub.pem", False)]
        for fn, priv in srcs:
            src = os.path.join(kd, fn)
            wd = os.path.join(rd, "conv_" + fn.replace(".", "_")); os.makedirs(wd, exist_ok=True)
            r = dict(file=fn, name=name, priv=priv, problems=[])
            variants = [["-q", "-k", "-o", "-", src], ["--quiet", "--disable-kid", "--output=-", src], ["-q", "-o", os.path.join(wd, "out.json"), src]]
            docs = []
            for v in variants:
                p = subprocess.run([T["key2jwk"]] + v, capture_output=True, env=env, cwd=wd)
                txt = p.stdout.decode("latin-1")
                if "-" not in v and "--output=-" not in v:
                    try:
                        txt = open(os.path.join(wd, "out.json")).read()
                    except Exception:
                        txt = ""
                if p.returncode != 0:
                    r["problems"].append(("key2jwk-exit", "rc %d: %s" % (p.returncode, p.stderr.decode("latin-1")[-200:])))
                    continue
                try:
                    d = json.loads(txt[txt.index("{"):])
                    docs.append(d)
                except Exception:
                    r["problems"].append(("key2jwk-output-not-json", txt[:200]))
            r["ndocs"] = len(docs)
            if not docs:
                res.append(r); continue
            d = docs[0]
            jw = d["keys"][0] if isinstance(d, dict) and isinstance(d.get("keys"), list) and d["keys"] else d
            r["jwk_public_view"] = {k2: (v if k2 in ("kty", "crv", "alg", "use", "key_ops") else "<%d chars>" % len(v) if isinstance(v, str) else v) for k2, v in jw.items()}
            for m_ in ("n", "e", "d", "p", "q", "dp", "dq", "qi", "x", "y", "k"):
                if m_ in jw:
                    if not isinstance(jw[m_], str) or not B64U.match(jw[m_]):
                        r["problems"].append(("member-not-unpadded-base64url:" + m_, str(jw[m_])[:60]))
            if jw.get("kty") == "EC":
                w = (bits + 7) // 8
                for m_ in ("x", "y", "d"):
                    if m_ in jw and isinstance(jw[m_], str) and B64U.match(jw[m_]):
                        ln = len(base64.urlsafe_b64decode(jw[m_] + "=" * (-len(jw[m_]) % 4)))
                        if ln != w:
                            r["problems"].append(("ec-member-not-fixed-width:%s" % m_, "%s is %d bytes, curve needs %d" % (m_, ln, w)))
            if priv is True and jw.get("kty") in ("EC", "RSA", "OKP") and "d" not in jw:
                r["problems"].append(("private-key-exported-without-d", ""))
            if priv is False and "d" in jw:
                r["problems"].append(("public-key-exported-with-d", ""))
            jpath = os.path.join(wd, "jwks.json")
            json.dump(d, open(jpath, "w"))
            if name.startswith("oct"):
                raw = open(src, "rb").read()
                try:
                    kk = base64.urlsafe_b64decode(jw["k"] + "=" * (-len(jw["k"]) % 4))
                except Exception:
                    kk = None
                if jw.get("kty") != "oct" or kk != raw:
                    r["problems"].append(("oct-key-bytes-differ", "kty %r" % jw.get("kty")))
                p = subprocess.run([helper, "--mode", "import", "--arg1", jpath, "--arg2", src], capture_output=True, env=env)
                imp = [json.loads(l) for l in p.stdout.decode().splitlines() if l.startswith('["IMP"')]
                if not imp or imp[0][2]:
                    r["problems"].append(("library-refuses-jwk", str(imp)[:200]))
            else:
                p = subprocess.run([helper, "--mode", "import", "--arg1", jpath, "--arg2", src], capture_output=True, env=env)
                imp = [json.loads(l) for l in p.stdout.decode().splitlines() if l.startswith('["IMP"')]
                if not imp or imp[0][2]:
                    r["problems"].append(("library-refuses-jwk", str(imp)[:200] + p.stderr.decode("latin-1")[-200:]))
                else:
                    _, nitems, ierr, msg, sp, sv, ispriv = imp[0]
                    if not sp or (priv and sv != 1):
                        r["problems"].append(("jwk-denotes-another-key", "same_public %s same_private %s" % (sp, sv)))
                    if bool(ispriv) != bool(priv):
                        r["problems"].append(("jwk-private-status-differs", "item private %s, source private %s" % (ispriv, priv)))
            # jwk2key back
            od = os.path.join(wd, "out"); os.makedirs(od, exist_ok=True)
            for spelling in (["-d", od], ["--dir=" + od, "--retry"]):
                p = subprocess.run([T["jwk2key"]] + spelling + [jpath], capture_output=True, env=env, cwd=wd)
                if p.returncode != 0:
                    r["problems"].append(("jwk2key-exit", "rc %d %s" % (p.returncode, p.stderr.decode("latin-1")[-200:])))
            outs = sorted(os.listdir(od))
            if not outs:
                r["problems"].append(("jwk2key-wrote-nothing", ""))
            for of in outs:
                op = os.path.join(od, of)
                if name.startswith("oct"):
                    if open(op, "rb").read() != open(src, "rb").read():
                        r["problems"].append(("jwk2key-oct-differs", of))
                else:
                    p = subprocess.run([helper, "--mode", "cmp", "--arg1", src, "--arg2", op], capture_output=True, env=env)
                    cmp_ = [json.loads(l) for l in p.stdout.decode().splitlines() if l.startswith('["CMP"')]
                    if not cmp_ or not cmp_[0][1] or (priv and cmp_[0][2] != 1):
                        r["problems"].append(("jwk2key-key-differs", "%s: %s" % (of, cmp_)))
            res.append(r)
        return res

    with ThreadPoolExecutor(vf.NCPU) as ex:
        for lst in ex.map(convert, keys):
            for r in lst:
                rep.evaluations += 8
                kindname = r["name"].rsplit("_", 1)[0] if r["name"].startswith("ec_") else r["name"]
                rep.distinct.add(("convert", kindname, r["priv"]))
                rep.count("key_conversions")
                if not r["problems"]:
                    rep.count("key_conversions_ok")
                for kind, detail in r["problems"]:
                    rep.violation("%s:%s:%s" % (kind, kindname.split("_")[0] + ("/" + kindname.split("_")[1] if kindname.startswith("ec_") else ""),
                                                "private" if r["priv"] else "public" if r["priv"] is False else "bin"),
                                  "key conversion problem: %s %s" % (kind, detail), dict(file=r["file"], detail=detail, jwk=r.get("jwk_public_view")))
    # key files larger than the tools' read buffer: PEM keys preceded by > 8 KiB of text (openssl -text style), oct keys around and beyond 8192 bytes.
    # key2jwk either refuses (non-zero exit; only tolerated beyond 8192 bytes) or emits the same key, never a different one
    def bigfile(job):
        kind, src, size = job
        wd = os.path.join(rd, "big-%s-%s-%d" % (kind, os.path.basename(src or "oct"), size)); shutil.rmtree(wd, ignore_errors=True); os.makedirs(wd)
        r = random.Random(seed * 31 + size)
        if kind == "pem":
            path = os.path.join(wd, "pre.pem")
            lines = "".join("    %s\n" % ":".join("%02x" % r.randrange(256) for _ in range(15)) for _ in range(size // 50))
            open(path, "w").write("Private-Key: (text dump in front of the PEM block)\nmodulus:\n" + lines + open(src).read())
        else:
            path = os.path.join(wd, "big.bin")
            open(path, "wb").write(bytes(r.randrange(256) for _ in range(size)))
        p = subprocess.run([T["key2jwk"], "-q", "-o", "-", path], capture_output=True, env=env, cwd=wd)
        if p.returncode != 0:
            return ("refused", kind, size, None) if (kind == "oct" and size > 8192) else ("problem", kind, size, "key2jwk exit %d: %s" % (p.returncode, p.stderr.decode("latin-1")[-200:]))
        try:
            txt = p.stdout.decode("latin-1"); d = json.loads(txt[txt.index("{"):])
            jw = d["keys"][0] if isinstance(d.get("keys"), list) else d
        except Exception as e:
            return ("problem", kind, size, "output not a JWK: %s" % str(e)[:80])
        if kind == "oct":
            try:
                kk = base64.urlsafe_b64decode(jw["k"] + "=" * (-len(jw["k"]) % 4))
            except Exception:
                kk = None
            if jw.get("kty") != "oct" or kk != open(path, "rb").read():
                return ("problem", kind, size, "kty %r, k has %s bytes, the file has %d" % (jw.get("kty"), len(kk) if kk is not None else None, size))
            return ("ok", kind, size, None)
        jpath = os.path.join(wd, "j.json"); json.dump(d, open(jpath, "w"))
        q = subprocess.run([helper, "--mode", "import", "--arg1", jpath, "--arg2", src], capture_output=True, env=env)
        imp = [json.loads(l) for l in q.stdout.decode().splitlines() if l.startswith('["IMP"')]
        if not imp or imp[0][2] or not imp[0][4] or imp[0][5] != 1:
            return ("problem", kind, size, "JWK (kty %r) does not denote the key of the PEM block: %s" % (jw.get("kty"), str(imp)[:120]))
        return ("ok", kind, size, None)

    bjobs = [("oct", None, n) for n in (8190, 8191, 8192, 8193, 9000, 20000)]
    for k in keys:
        if k[1] in ("rsa_2048", "ec_P-256_0", "okp_Ed25519", "ec_P-256") or (thorough and not k[1].startswith("oct")):
            for n in ((9000, 70000) if thorough else (9000,)):
                pth = os.path.join(kd, k[1] + ".pem")
                if os.path.exists(pth):
                    bjobs.append(("pem", pth, n))
    with ThreadPoolExecutor(vf.NCPU) as ex:
        for st, kind, size, detail in ex.map(bigfile, bjobs):
            rep.evaluations += 1
            rep.count("big_key_files." + st)
            rep.distinct.add(("bigfile", kind, size, st))
            if st == "problem":
                rep.violation("key2jwk-big-file:%s:%s" % (kind, "over-8192" if size > 8192 else "up-to-8192"),
                              "key file of %d bytes (%s): %s" % (size, kind, detail), dict(kind=kind, size=size, detail=detail))
    # several keys in one key2jwk call -> one JWKS -> jwk2key: as many files as keys, each the identical key of exactly one source
    _unusable = {}
    def unusable(entry):
        key_ = json.dumps(entry, sort_keys=True)
        if key_ not in _unusable:
            pth = os.path.join(rd, "probe-%d.json" % (abs(hash(key_)) % 10**9))
            json.dump(entry, open(pth, "w"))
            q_ = subprocess.run([helper, "--mode", "import", "--arg1", pth, "--arg2", pth], capture_output=True, env=env)
            l_ = [json.loads(x) for x in q_.stdout.decode().splitlines() if x.startswith('["IMP"')]
            _unusable[key_] = bool(l_) and l_[0][2] != 0
        return _unusable[key_]

    def multi(round_):
        r = random.Random(seed * 7919 + round_)
        srcs = []
        for k in r.sample(keys, min(len(keys), r.choice([2, 3, 5, 9]))):
            name = k[1]
            srcs.append(os.path.join(kd, name + ".bin") if name.startswith("oct") else os.path.join(kd, name + (".pem" if r.random() < 0.7 else "_pub.pem")))
        if round_ % 3 == 0 and srcs:
            srcs.append(srcs[0])           # the same key twice: two entries, two files
        wd = os.path.join(rd, "multi-%d" % round_); od = os.path.join(wd, "out")
        shutil.rmtree(wd, ignore_errors=True); os.makedirs(od)
        probs = []
        jpath = os.path.join(wd, "set.json")
        p = subprocess.run([T["key2jwk"], "-q", "-o", jpath] + srcs, capture_output=True, env=env, cwd=wd)
        if p.returncode != 0:
            return [("multi:key2jwk-exit", "rc %d %s" % (p.returncode, p.stderr.decode("latin-1")[-200:]))], len(srcs)
        try:
            d = json.load(open(jpath))
            n = len(d["keys"])
        except Exception as e:
            return [("multi:key2jwk-output-not-a-jwks", str(e)[:100])], len(srcs)
        if n != len(srcs):
            probs.append(("multi:jwks-entry-count", "%d keys given, %d entries" % (len(srcs), n)))
        kids = [k_.get("kid") for k_ in d["keys"]]
        if len(set(kids)) != len(kids):
            probs.append(("multi:duplicate-kid", str(kids)[:200]))
        nbad = 0
        if round_ % 2 == 1:
            # every second round: one or two entries that do not import (an off-curve EC point, an oct key without k) are put between the
            # good ones, at the front or at the end: every good key is still written back, whatever the tool does about the bad ones
            BAD = [{"kty": "EC", "crv": "P-256", "x": "AQIDBAUGBwgJCgsMDQ4PEBESExQVFhcYGRobHB0eHyA", "y": "ICEiIyQlJicoKSorLC0uLzAxMjM0NTY3ODk6Ozw9Pj8", "kid": "broken-ec"},
                   {"kty": "oct", "kid": "broken-oct"}, {"kty": "RSA", "n": "AAAA", "e": "AQAB", "kid": "broken-rsa"}]
            BAD = [b_ for b_ in BAD if _unusable.get(json.dumps(b_, sort_keys=True))]      # the library decides what does not import (probed before the pool starts)
            for _ in range(r.choice([1, 1, 2]) if BAD else 0):
                d["keys"].insert(r.choice([0, len(d["keys"]), r.randrange(len(d["keys"]) + 1)]), r.choice(BAD))
                nbad += 1
            json.dump(d, open(jpath, "w"))
        p = subprocess.run([T["jwk2key"], "-d", od, jpath], capture_output=True, env=env, cwd=wd)
        if p.returncode != 0 and not nbad:
            probs.append(("multi:jwk2key-exit", "rc %d %s" % (p.returncode, p.stderr.decode("latin-1")[-200:])))
        outs = sorted(os.listdir(od))
        if len(outs) != len(srcs):
            probs.append(("multi:file-count" + (":with-unusable-entries" if nbad else ""), "%d keys%s, %d files written: %s" % (len(srcs), " (+%d unusable entries)" % nbad if nbad else "", len(outs), p.stderr.decode("latin-1")[-200:])))
        unmatched = list(srcs)
        for of in outs:
            op = os.path.join(od, of)
            hit = None
            for sfile in unmatched:
                if sfile.endswith(".bin") != of.endswith(".bin"):
                    continue
                if sfile.endswith(".bin"):
                    same = open(sfile, "rb").read() == open(op, "rb").read()
                else:
                    q = subprocess.run([helper, "--mode", "cmp", "--arg1", sfile, "--arg2", op], capture_output=True, env=env)
                    c_ = [json.loads(l) for l in q.stdout.decode().splitlines() if l.startswith('["CMP"')]
                    spriv = not sfile.endswith("_pub.pem")
                    same = bool(c_) and bool(c_[0][1]) and (c_[0][2] == 1 if spriv else ("_pub" in of))
                if same:
                    hit = sfile
                    break
            if hit:
                unmatched.remove(hit)
            else:
                probs.append(("multi:written-file-matches-no-source", of))
        if unmatched and len(outs) == len(srcs):
            probs.append(("multi:source-key-not-written-back", ",".join(os.path.basename(u) for u in unmatched)[:200]))
        return probs, len(srcs)

    for cand_ in ({"kty": "EC", "crv": "P-256", "x": "AQIDBAUGBwgJCgsMDQ4PEBESExQVFhcYGRobHB0eHyA", "y": "ICEiIyQlJicoKSorLC0uLzAxMjM0NTY3ODk6Ozw9Pj8", "kid": "broken-ec"},
                  {"kty": "oct", "kid": "broken-oct"}, {"kty": "RSA", "n": "AAAA", "e": "AQAB", "kid": "broken-rsa"}):
        unusable(cand_)
    rep.count("unusable_entry_kinds", sum(1 for v_ in _unusable.values() if v_))
    vf.need(rep, any(_unusable.values()), "no entry that fails to import available for the multi-key rounds")
    with ThreadPoolExecutor(vf.NCPU) as ex:
        for probs, nk in ex.map(multi, range(40 if thorough else 12)):
            rep.evaluations += nk
            rep.count("multi_key_conversions")
            rep.distinct.add(("multi", nk))
            for kind, detail in probs:
                rep.violation(kind, "multi-key conversion problem: %s %s" % (kind, detail), dict(detail=detail))
    rep.sample(dict(keys=[k[1] for k in keys][:12]))
    rep.sample(dict(generate_verify_example=jobs[0]["desc"] if jobs else None))
    c = rep.counters
    vf.need(rep, c.get("verify_lists", 0) >= 40, "too few token lists")
    vf.need(rep, c.get("key_conversions", 0) >= 20, "too few key conversions")
    vf.need(rep, c.get("ec_keys_with_leading_zero_coordinate", 0) >= 4 and c.get("ec_keys_with_leading_zero_private_scalar", 0) >= 4,
            "leading-zero EC keys missing")
    return rep

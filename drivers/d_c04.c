/* C04: claim checks (exp, nbf, iss, sub, aud).  Histories of configuration calls interleaved with
 * verifies at harness-controlled clock values; every call is logged, the model lives in checks/c04.py.
 *  lines: ["N",hist,signed]                      new checker (signed: HS256 key set)
 *         ["L",hist,claim,secs,rc]               jwt_checker_time_leeway
 *         ["S",hist,type,value|null,rc]          jwt_checker_claim_set
 *         ["D",hist,type,rc]                     jwt_checker_claim_del
 *         ["G",hist,type,value|null]             jwt_checker_claim_get
 *         ["V",hist,now,payload_text,rc,errflag] jwt_checker_verify
 */
#include "vh.h"
#include <inttypes.h>

static vh_rng_t rng;
static unsigned long nv_total;
static vh_key_t okey;
static jwk_set_t *oset;
static const jwk_item_t *oitem;

static const int64_t NOWS[] = { 0, 1, 2147483647LL, 2147483648LL, 4294967296LL, 1700000000LL, 1099511627776LL, -1, -2 };	/* -1 is also time()'s error value; still a clock reading */
#define NNOWS 9
static const int64_t LEEWAYS[] = { -1, 0, 1, 59, 2147483648LL, 1099511627776LL, -2, -100 };
static const char *TYPEVALS[] = { "\"123\"", "1.0", "1e3", "true", "false", "null", "[]", "{}", "[1]", "1.5", "-0.0", "\"\"" };
#define NTYPEVALS 12
static const char *STRS[] = { "a", "ab", "A", "", "\xc3\xa9", "e\xcc\x81", "issuer.example.com", "issuer.example.co",
	"Issuer.example.com", "issuer.example.com ", " issuer.example.com", "b", "aa" };
#define NSTRS 13
/* actual-claim JSON texts that are not plain strings from STRS */
static const char *ODD_ACTUAL[] = { "1", "[\"a\"]", "{\"a\":1}", "true", "null", "\"a\\u0000b\"", "\"a\\u0000\"", "[]", "0", "1.5" };
#define NODD 10

static int64_t pick_now(void) { return vh_below(&rng, 10) == 9 ? (int64_t)vh_below(&rng, 1ULL << 41) : NOWS[vh_below(&rng, NNOWS)]; }
static int64_t pick_leeway(void) { return vh_below(&rng, 9) == 8 ? (int64_t)vh_below(&rng, 1ULL << 40) : LEEWAYS[vh_below(&rng, 8)]; }

static char *mk_token(const char *payload, int is_signed)
{
	if (is_signed)
		return vh_ref_token(&okey, JWT_ALG_HS256, "{\"alg\":\"HS256\",\"typ\":\"JWT\"}", payload);
	return vh_ref_token(NULL, JWT_ALG_NONE, "{\"alg\":\"none\"}", payload);
}

static void do_verify(long hist, jwt_checker_t *c, int is_signed, int64_t now, const char *payload)
{
	char *tok = mk_token(payload, is_signed);
	int rc, ef;
	vh_now = (time_t)now;
	/* a quarter of the verifications run on a clock that advances by one second with every reading: a verification reads the clock once, so
	 * its verdict, error flag and message all belong to that one reading */
	{ static unsigned long nv; vh_tick = (++nv & 3) == 3 ? 1 : 0; }
	rc = jwt_checker_verify(c, tok);
	vh_tick = 0;
	ef = jwt_checker_error(c);
	printf("[\"V\",%ld,%" PRId64 ",", hist, now);
	vh_put_jstr(stdout, payload);
	printf(",%d,%d]\n", rc, ef);
	jwt_checker_error_clear(c);
	free(tok);
	/* the token this checker accepted last comes back (the very same string): a moment later, much later, or after the configuration calls
	 * that the history made in between.  Every verification is judged by the clock and the configuration of its own moment */
	{
		static char *last_ok; static long last_hist = -1; static const jwt_checker_t *last_c; static int inside; static unsigned long nre;
		if (!inside) {
			inside = 1;
			if (last_ok && last_hist == hist && last_c == c && strcmp(last_ok, payload)) {
				nre++;
				if ((nre % 3) == 0) do_verify(hist, c, is_signed, now, last_ok);
			}
			if (rc == 0) {
				static const int64_t LATER[] = { 1, 2, 61, 3600, 2147483648LL };
				char *keep = strdup(payload);
				if ((nv_total++ % 3) == 0) do_verify(hist, c, is_signed, now + LATER[nv_total % 5], keep);
				free(last_ok); last_ok = keep; last_hist = hist; last_c = c;
			}
			inside = 0;
		}
	}
}
static void do_leeway(long hist, jwt_checker_t *c, int claim, int64_t secs)
{
	int rc = jwt_checker_time_leeway(c, (jwt_claims_t)claim, (time_t)secs);
	printf("[\"L\",%ld,%d,%" PRId64 ",%d]\n", hist, claim, secs, rc);
}
static void do_set(long hist, jwt_checker_t *c, int type, const char *v)
{
	int rc = jwt_checker_claim_set(c, (jwt_claims_t)type, v);
	printf("[\"S\",%ld,%d,", hist, type); vh_put_jstr(stdout, v); printf(",%d]\n", rc);
}
static void do_del(long hist, jwt_checker_t *c, int type)
{
	int rc = jwt_checker_claim_del(c, (jwt_claims_t)type);
	printf("[\"D\",%ld,%d,%d]\n", hist, type, rc);
}
static void do_get(long hist, jwt_checker_t *c, int type)
{
	const char *v = jwt_checker_claim_get(c, (jwt_claims_t)type);
	printf("[\"G\",%ld,%d,", hist, type); vh_put_jstr(stdout, v); printf("]\n");
}
static jwt_checker_t *new_checker(long hist, int is_signed)
{
	jwt_checker_t *c = jwt_checker_new();
	if (!c) vh_harness_fail("checker_new");
	if (is_signed && jwt_checker_setkey(c, JWT_ALG_HS256, oitem)) vh_harness_fail("setkey");
	printf("[\"N\",%ld,%d]\n", hist, is_signed);
	return c;
}

/* payload text builder */
typedef struct { char b[4096]; size_t n; int first; } pl_t;
static void pl_init(pl_t *p) { p->n = 0; p->first = 1; p->b[p->n++] = '{'; p->b[p->n] = 0; }
static void pl_add_raw(pl_t *p, const char *name, const char *rawjson)
{
	p->n += (size_t)snprintf(p->b + p->n, sizeof(p->b) - p->n, "%s\"%s\":%s", p->first ? "" : ",", name, rawjson);
	p->first = 0;
}
static void pl_add_int(pl_t *p, const char *name, int64_t v)
{
	char t[32]; snprintf(t, sizeof(t), "%" PRId64, v); pl_add_raw(p, name, t);
}
static void pl_add_str(pl_t *p, const char *name, const char *s)
{
	/* the strings in STRS need no JSON escaping */
	char t[1200]; snprintf(t, sizeof(t), "\"%s\"", s); pl_add_raw(p, name, t);
}
static const char *pl_done(pl_t *p) { p->b[p->n++] = '}'; p->b[p->n] = 0; return p->b; }

/* boundary case: fixed (now, leeway) with every boundary value and every type for exp and nbf */
static void boundary_case(long hist, int ni, int li, int is_signed)
{
	jwt_checker_t *c = new_checker(hist, is_signed);
	int64_t now = NOWS[ni], lw = LEEWAYS[li], eff = lw < 0 ? 0 : lw;
	static const char *NAMES[2] = { "exp", "nbf" };
	for (int which = 0; which < 2; which++) {
		pl_t p;
		int64_t b = which == 0 ? now - eff : now + eff;
		int64_t vals[] = { b - 2, b - 1, b, b + 1, b + 2, -1, 0, 1, INT64_MIN, INT64_MIN + 1, INT64_MAX, INT64_MAX - 1, now, (int64_t)vh_rand(&rng) };
		do_leeway(hist, c, which == 0 ? JWT_CLAIM_EXP : JWT_CLAIM_NBF, lw);
		for (size_t i = 0; i < sizeof(vals) / sizeof(vals[0]); i++) {
			pl_init(&p); pl_add_int(&p, NAMES[which], vals[i]); pl_add_raw(&p, "x", "1");
			do_verify(hist, c, is_signed, now, pl_done(&p));
		}
		for (int t = 0; t < NTYPEVALS; t++) {
			pl_init(&p); pl_add_raw(&p, NAMES[which], TYPEVALS[t]);
			do_verify(hist, c, is_signed, now, pl_done(&p));
		}
		pl_init(&p); pl_add_raw(&p, "x", "1"); do_verify(hist, c, is_signed, now, pl_done(&p));	/* claim absent */
		pl_init(&p); pl_add_raw(&p, NAMES[which], "18446744073709551616"); do_verify(hist, c, is_signed, now, pl_done(&p));	/* 2^64: ambiguous */
	}
	jwt_checker_free(c);
}

/* string-claim case: every expected x actual pair for one claim type */
static void string_case(long hist, int type, int is_signed)
{
	jwt_checker_t *c = new_checker(hist, is_signed);
	const char *name = type == JWT_CLAIM_ISS ? "iss" : type == JWT_CLAIM_SUB ? "sub" : "aud";
	pl_t p;
	do_get(hist, c, type);
	for (int e = 0; e < NSTRS; e++) {
		do_set(hist, c, type, STRS[e]);
		do_get(hist, c, type);
		for (int a = 0; a < NSTRS; a++) { pl_init(&p); pl_add_str(&p, name, STRS[a]); do_verify(hist, c, is_signed, 1700000000, pl_done(&p)); }
		for (int a = 0; a < NODD; a++) { pl_init(&p); pl_add_raw(&p, name, ODD_ACTUAL[a]); do_verify(hist, c, is_signed, 1700000000, pl_done(&p)); }
		pl_init(&p); pl_add_raw(&p, "x", "1"); do_verify(hist, c, is_signed, 1700000000, pl_done(&p));
		/* other claims present but not this one */
		pl_init(&p); pl_add_str(&p, type == JWT_CLAIM_ISS ? "sub" : "iss", STRS[e]); do_verify(hist, c, is_signed, 1700000000, pl_done(&p));
	}
	do_del(hist, c, type);
	do_get(hist, c, type);
	pl_init(&p); pl_add_str(&p, name, "zzz"); do_verify(hist, c, is_signed, 1700000000, pl_done(&p));
	jwt_checker_free(c);
}

/* length relations: expected and actual share a prefix and differ in length by d, for the d an implementation that folds, truncates or
 * narrows a length would confuse with 0 (multiples of 256 and 65536) and their neighbours */
static void length_case(long hist, int type, int is_signed)
{
	static const int D[] = { 1, 2, 127, 128, 255, 256, 257, 511, 512, 513, 768, 1024, 4096, 65535, 65536, 65537, 131072 };
	static const int BASE[] = { 0, 1, 18, 255, 256, 300 };
	jwt_checker_t *c = new_checker(hist, is_signed);
	const char *name = type == JWT_CLAIM_ISS ? "iss" : type == JWT_CLAIM_SUB ? "sub" : "aud";
	char *e = malloc(140000), *av = malloc(140000), *pl = malloc(140100);
	for (size_t bi = 0; bi < sizeof(BASE) / sizeof(BASE[0]); bi++)
		for (size_t di = 0; di < sizeof(D) / sizeof(D[0]); di++)
			for (int dir = 0; dir < 2; dir++) {
				/* dir 0: token value = expected + d filler characters; dir 1: expected = token value + d filler characters */
				size_t lb = (size_t)BASE[bi], ll = lb + (size_t)D[di];
				char *lng = dir ? e : av, *sht = dir ? av : e;
				if (D[di] > 4096 && bi % 3 != (size_t)dir) continue;
				for (size_t i = 0; i < ll; i++) lng[i] = (char)(i < lb ? 'a' + i % 26 : (di & 1) ? 'x' : 'a' + i % 26);
				lng[ll] = 0;
				memcpy(sht, lng, lb); sht[lb] = 0;
				do_set(hist, c, type, e);
				sprintf(pl, "{\"%s\":\"%s\",\"x\":1}", name, av);
				do_verify(hist, c, is_signed, 1700000000, pl);
				if (di == 0) { sprintf(pl, "{\"%s\":\"%s\"}", name, e); do_verify(hist, c, is_signed, 1700000000, pl); }	/* control: equal */
			}
	free(e); free(av); free(pl);
	jwt_checker_free(c);
}

static void random_payload(pl_t *p, int64_t now, int64_t lw_exp, int64_t lw_nbf)
{
	static const char *NM[3] = { "iss", "sub", "aud" };
	/* member order varies: the time claims before, after or between the string claims (a third party's serialiser need not sort) */
	int order = (int)vh_below(&rng, 3);
	pl_init(p);
	if (order) {
		for (int t = 0; t < (order == 1 ? 3 : 1); t++) {
			switch (vh_below(&rng, 8)) {
			case 0: case 1: break;
			case 2: pl_add_raw(p, NM[t], ODD_ACTUAL[vh_below(&rng, NODD)]); break;
			default: pl_add_str(p, NM[t], STRS[vh_below(&rng, NSTRS)]); break;
			}
		}
	}
	for (int which = 0; which < 2; which++) {
		const char *nm = which ? "nbf" : "exp";
		int64_t eff = (which ? lw_nbf : lw_exp), b;
		if (eff < 0) eff = 0;
		b = which ? now + eff : now - eff;
		switch (vh_below(&rng, 10)) {
		case 0: case 1: break;	/* absent */
		case 2: case 3: case 4: case 5: pl_add_int(p, nm, b + (int64_t)vh_below(&rng, 5) - 2); break;
		case 6: pl_add_int(p, nm, (int64_t)vh_rand(&rng)); break;
		case 7: pl_add_int(p, nm, (int64_t)vh_below(&rng, 1ULL << 41)); break;
		case 8: pl_add_raw(p, nm, TYPEVALS[vh_below(&rng, NTYPEVALS)]); break;
		default: pl_add_int(p, nm, which ? 0 : INT64_MAX); break;
		}
	}
	for (int t = (order == 0 ? 0 : order == 1 ? 3 : 1); t < 3; t++) {
		switch (vh_below(&rng, 8)) {
		case 0: case 1: break;
		case 2: pl_add_raw(p, NM[t], ODD_ACTUAL[vh_below(&rng, NODD)]); break;
		default: pl_add_str(p, NM[t], STRS[vh_below(&rng, NSTRS)]); break;
		}
	}
	if (vh_below(&rng, 2)) pl_add_raw(p, "extra", "{\"exp\":1,\"iss\":\"a\"}");
}

/* a callback that reconfigures its own checker (expected issuer per tenant, leeway per token ...): the callback runs before the claims are
 * judged, so a configuration call it makes is the most recent one for the token in hand; the call is logged from inside the callback */
typedef struct { jwt_checker_t *c; long hist; int armed; } cbx_t;
static cbx_t g_cbx;
static int reconf_cb(jwt_t *jwt, jwt_config_t *cfg)
{
	static const int T[3] = { JWT_CLAIM_ISS, JWT_CLAIM_SUB, JWT_CLAIM_AUD };
	cbx_t *x = cfg->ctx ? cfg->ctx : &g_cbx;
	(void)jwt;
	if (!x->armed) return 0;
	x->armed = 0;
	switch (vh_below(&rng, 4)) {
	case 0: do_set(x->hist, x->c, T[vh_below(&rng, 3)], STRS[vh_below(&rng, NSTRS)]); break;
	case 1: do_del(x->hist, x->c, T[vh_below(&rng, 3)]); break;
	case 2: do_leeway(x->hist, x->c, JWT_CLAIM_EXP, pick_leeway()); break;
	default: do_leeway(x->hist, x->c, JWT_CLAIM_NBF, pick_leeway()); break;
	}
	return 0;
}

static void random_history(long hist, int is_signed, int len)
{
	jwt_checker_t *c = new_checker(hist, is_signed);
	static const int T[3] = { JWT_CLAIM_ISS, JWT_CLAIM_SUB, JWT_CLAIM_AUD };
	int with_cb = (hist & 3) == 1;
	if (with_cb) { g_cbx.c = c; g_cbx.hist = hist; g_cbx.armed = 0; jwt_checker_setcb(c, reconf_cb, (hist & 4) ? &g_cbx : NULL); }
	int64_t lw_exp = 0, lw_nbf = 0;
	for (int i = 0; i < len; i++) {
		switch (vh_below(&rng, 12)) {
		case 0: { int64_t s = pick_leeway(); do_leeway(hist, c, JWT_CLAIM_EXP, s); lw_exp = s; break; }
		case 1: { int64_t s = pick_leeway(); do_leeway(hist, c, JWT_CLAIM_NBF, s); lw_nbf = s; break; }
		case 2: do_leeway(hist, c, T[vh_below(&rng, 3)], pick_leeway()); break;	/* invalid claim for leeway */
		case 3: case 4: do_set(hist, c, T[vh_below(&rng, 3)], STRS[vh_below(&rng, NSTRS)]); break;
		case 5: do_del(hist, c, T[vh_below(&rng, 3)]); break;
		case 6: do_get(hist, c, T[vh_below(&rng, 3)]); break;
		case 7:
			switch (vh_below(&rng, 4)) {
			case 0: if (vh_below(&rng, 2)) do_set(hist, c, T[vh_below(&rng, 3)], NULL);	/* refused: no change */
				else do_set(hist, c, T[vh_below(&rng, 3)], vh_below(&rng, 2) ? "caf\xe9" : "\xff\xfe");	/* refused: not UTF-8 */
				break;
			case 1: do_set(hist, c, JWT_CLAIM_EXP, "x"); break;		/* refused: not a string claim */
			case 2: do_del(hist, c, JWT_CLAIM_NBF); break;			/* refused */
			default: do_set(hist, c, JWT_CLAIM_ISS | JWT_CLAIM_SUB, "x"); break;	/* refused: two bits */
			}
			break;
		default: {
			pl_t p;
			int64_t now = pick_now();
			random_payload(&p, now, lw_exp, lw_nbf);
			if (with_cb) g_cbx.armed = (int)vh_below(&rng, 2);
			do_verify(hist, c, is_signed, now, pl_done(&p));
		}
		}
	}
	jwt_checker_free(c);
}

int main(int argc, char **argv)
{
	vh_args_t a;
	long hist = 0, nrandom;
	vh_parse_args(argc, argv, &a);
	nrandom = a.n > 0 ? a.n : 1000;
	vh_rng_seed(&rng, a.seed, 1);
	if (vh_key_gen(&okey, "oct:48", &rng)) vh_harness_fail("keygen");
	oitem = vh_key_load(&okey, 1, NULL, &oset);
	if (!oitem) vh_harness_fail("keyload");

	for (int s = 0; s < 2; s++)
	for (int ni = 0; ni < NNOWS; ni++)
	for (int li = 0; li < 8; li++, hist++) {
		if (!vh_mine(&a, hist)) continue;
		vh_rng_seed(&rng, a.seed, 100000 + (uint64_t)hist);
		vh_case_begin(hist, "\"kind\":\"boundary\",\"now\":%d,\"leeway\":%d,\"signed\":%d", ni, li, s);
		boundary_case(hist, ni, li, s);
	}
	for (int s = 0; s < 2; s++)
	for (int t = 0; t < 3; t++, hist++) {
		static const int T[3] = { JWT_CLAIM_ISS, JWT_CLAIM_SUB, JWT_CLAIM_AUD };
		if (!vh_mine(&a, hist)) continue;
		vh_case_begin(hist, "\"kind\":\"strings\",\"type\":%d,\"signed\":%d", T[t], s);
		string_case(hist, T[t], s);
	}
	for (int s = 0; s < 2; s++)
	for (int t = 0; t < 3; t++, hist++) {
		static const int T[3] = { JWT_CLAIM_ISS, JWT_CLAIM_SUB, JWT_CLAIM_AUD };
		if (!vh_mine(&a, hist)) continue;
		vh_case_begin(hist, "\"kind\":\"lengths\",\"type\":%d,\"signed\":%d", T[t], s);
		length_case(hist, T[t], s);
	}
	for (long i = 0; i < nrandom; i++, hist++) {
		if (!vh_mine(&a, hist)) continue;
		vh_rng_seed(&rng, a.seed, 100000 + (uint64_t)hist);
		vh_case_begin(hist, "\"kind\":\"random\"");
		random_history(hist, (int)(hist & 1), 4 + (int)vh_below(&rng, 28));
	}
	jwks_free(oset);
	vh_key_free(&okey);
	return 0;
}

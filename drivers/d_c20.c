/* C20 helper: key material for the command-line tool checks and an OpenSSL-direct comparison oracle.
 * modes: genkeys --arg1 DIR --n N   write PEM/bin/JWK files for fresh keys; EC keys are generated until N keys with a
 *                                   leading-zero coordinate and N with a leading-zero private scalar exist per curve
 *        cmp --arg1 A.pem --arg2 B.pem      ["CMP", same_public, same_private(-1 if one side is public), detail]
 *        import --arg1 JWKS --arg2 ORIG.pem ["IMP", nitems, item_error, msg, same_public, same_private, is_private]
 */
#include "vh.h"
#include <openssl/pem.h>
#include <openssl/bn.h>
#include <openssl/rsa.h>
#include <openssl/core_names.h>

static EVP_PKEY *read_pem(const char *path, int *is_priv)
{
	FILE *f = fopen(path, "r");
	EVP_PKEY *k;
	if (!f) return NULL;
	k = PEM_read_PrivateKey(f, NULL, NULL, NULL);
	*is_priv = k != NULL;
	if (!k) { rewind(f); k = PEM_read_PUBKEY(f, NULL, NULL, NULL); }
	fclose(f);
	return k;
}
static int bn_eq(EVP_PKEY *a, EVP_PKEY *b, const char *p)
{
	BIGNUM *x = NULL, *y = NULL;
	int r = EVP_PKEY_get_bn_param(a, p, &x) && EVP_PKEY_get_bn_param(b, p, &y) && !BN_cmp(x, y);
	BN_free(x); BN_free(y);
	return r;
}
static void compare(EVP_PKEY *a, int apriv, EVP_PKEY *b, int bpriv, int *same_pub, int *same_priv, char *detail, size_t dl)
{
	int ba = EVP_PKEY_get_base_id(a), bb = EVP_PKEY_get_base_id(b);
	*same_pub = 0; *same_priv = -1;
	snprintf(detail, dl, "types %d/%d", ba, bb);
	/* a key that says RSASSA-PSS in its PEM must come back as one (the restriction is part of the key); a plain RSA key may come
	 * back as either, because a JWK can only hint at PSS through its alg */
	if (ba == EVP_PKEY_RSA_PSS && bb == EVP_PKEY_RSA) return;
	if (ba == EVP_PKEY_RSA_PSS) ba = EVP_PKEY_RSA;
	if (bb == EVP_PKEY_RSA_PSS) bb = EVP_PKEY_RSA;
	if (ba != bb) return;
	if (ba == EVP_PKEY_RSA) {
		*same_pub = bn_eq(a, b, OSSL_PKEY_PARAM_RSA_N) && bn_eq(a, b, OSSL_PKEY_PARAM_RSA_E);
		if (apriv && bpriv) *same_priv = bn_eq(a, b, OSSL_PKEY_PARAM_RSA_D) && bn_eq(a, b, OSSL_PKEY_PARAM_RSA_FACTOR1) && bn_eq(a, b, OSSL_PKEY_PARAM_RSA_FACTOR2) &&
			bn_eq(a, b, OSSL_PKEY_PARAM_RSA_EXPONENT1) && bn_eq(a, b, OSSL_PKEY_PARAM_RSA_EXPONENT2) && bn_eq(a, b, OSSL_PKEY_PARAM_RSA_COEFFICIENT1);
	} else if (ba == EVP_PKEY_EC) {
		char g1[64] = "", g2[64] = ""; size_t l;
		EVP_PKEY_get_utf8_string_param(a, OSSL_PKEY_PARAM_GROUP_NAME, g1, sizeof(g1), &l);
		EVP_PKEY_get_utf8_string_param(b, OSSL_PKEY_PARAM_GROUP_NAME, g2, sizeof(g2), &l);
		*same_pub = !strcmp(g1, g2) && bn_eq(a, b, OSSL_PKEY_PARAM_EC_PUB_X) && bn_eq(a, b, OSSL_PKEY_PARAM_EC_PUB_Y);
		if (apriv && bpriv) *same_priv = bn_eq(a, b, OSSL_PKEY_PARAM_PRIV_KEY);
	} else {
		unsigned char b1[64], b2[64]; size_t l1 = 64, l2 = 64;
		*same_pub = EVP_PKEY_get_raw_public_key(a, b1, &l1) && EVP_PKEY_get_raw_public_key(b, b2, &l2) && l1 == l2 && !memcmp(b1, b2, l1);
		if (apriv && bpriv) { l1 = l2 = 64; *same_priv = EVP_PKEY_get_raw_private_key(a, b1, &l1) && EVP_PKEY_get_raw_private_key(b, b2, &l2) && l1 == l2 && !memcmp(b1, b2, l1); }
	}
}

static void write_file(const char *dir, const char *name, const char *suffix, const void *data, size_t n)
{
	char p[1024];
	FILE *f;
	snprintf(p, sizeof(p), "%s/%s%s", dir, name, suffix);
	f = fopen(p, "wb");
	if (!f) vh_harness_fail("cannot write %s", p);
	fwrite(data, 1, n, f);
	fclose(f);
}
static void write_pems(const char *dir, const char *name, EVP_PKEY *k)
{
	char p[1024];
	FILE *f;
	snprintf(p, sizeof(p), "%s/%s.pem", dir, name);
	f = fopen(p, "w"); PEM_write_PrivateKey(f, k, NULL, NULL, 0, NULL, NULL); fclose(f);
	snprintf(p, sizeof(p), "%s/%s_pub.pem", dir, name);
	f = fopen(p, "w"); PEM_write_PUBKEY(f, k); fclose(f);
}
static int lead_zero(EVP_PKEY *k, const char *param, int width)
{
	BIGNUM *bn = NULL;
	unsigned char buf[80];
	int r = 0;
	if (EVP_PKEY_get_bn_param(k, param, &bn)) { BN_bn2binpad(bn, buf, width); r = buf[0] == 0; }
	BN_free(bn);
	return r;
}

int main(int argc, char **argv)
{
	vh_args_t a;
	vh_rng_t rng;
	vh_parse_args(argc, argv, &a);
	vh_rng_seed(&rng, a.seed, 20);
	if (!strcmp(a.mode, "cmp")) {
		int ap, bp, sp, sv;
		char d[128];
		EVP_PKEY *x = read_pem(a.arg1, &ap), *y = read_pem(a.arg2, &bp);
		if (!x || !y) { printf("[\"CMP\",0,0,\"unreadable %s\"]\n", !x ? "first" : "second"); return 0; }
		compare(x, ap, y, bp, &sp, &sv, d, sizeof(d));
		printf("[\"CMP\",%d,%d,\"%s priv=%d/%d\"]\n", sp, sv, d, ap, bp);
		return 0;
	}
	if (!strcmp(a.mode, "verdicts")) {
		/* the library's own verdict on each line of --arg2 under the first key of --arg1 (configured as jwt-verify configures its checker:
		 * setkey with the key's alg, nothing else): ["VD", line, rc] */
		jwk_set_t *s = jwks_create_fromfile(a.arg1);
		const jwk_item_t *it = s ? jwks_item_get(s, 0) : NULL;
		jwt_checker_t *c = jwt_checker_new();
		FILE *f = fopen(a.arg2, "r");
		static char line[200000];
		long n = 0;
		if (!it || jwks_item_error(it) || !c || !f) vh_harness_fail("verdicts: cannot load key or token file");
		/* --n: the algorithm the -a/--algorithm option names (0: option not given), passed to setkey as the tool passes it */
		{
			int src = jwt_checker_setkey(c, (jwt_alg_t)(a.n > 0 ? a.n : 0), it);
			printf("[\"VS\",%d]\n", src != 0);
			if (src) { fclose(f); jwt_checker_free(c); jwks_free(s); return 0; }
		}
		while (fgets(line, sizeof(line), f)) {
			line[strcspn(line, "\n")] = 0;
			printf("[\"VD\",%ld,%d]\n", n++, jwt_checker_verify(c, line) ? 1 : 0);
		}
		fclose(f);
		jwt_checker_free(c);
		jwks_free(s);
		return 0;
	}
	if (!strcmp(a.mode, "import")) {
		jwk_set_t *s = jwks_create_fromfile(a.arg1);
		const jwk_item_t *it = s ? jwks_item_get(s, 0) : NULL;
		int op = 0, sp = 0, sv = -1;
		char d[128] = "";
		printf("[\"IMP\",%zu,", s ? jwks_item_count(s) : 0);
		if (!s || jwks_error(s) || !it) { printf("1,"); vh_put_jstr(stdout, s ? jwks_error_msg(s) : "no set"); printf(",0,0,0]\n"); return 0; }
		printf("%d,", jwks_item_error(it)); vh_put_jstr(stdout, jwks_item_error_msg(it));
		if (!jwks_item_error(it) && jwks_item_pem(it)) {
			EVP_PKEY *orig = read_pem(a.arg2, &op), *got;
			BIO *bio = BIO_new_mem_buf(jwks_item_pem(it), -1);
			int gp = jwks_item_is_private(it);
			got = gp ? PEM_read_bio_PrivateKey(bio, NULL, NULL, NULL) : PEM_read_bio_PUBKEY(bio, NULL, NULL, NULL);
			BIO_free(bio);
			if (orig && got) compare(orig, op, got, gp, &sp, &sv, d, sizeof(d));
		}
		printf(",%d,%d,%d]\n", sp, sv, jwks_item_is_private(it));
		return 0;
	}
	/* genkeys */
	{
		static const char *SPECS[] = { "rsa:2048", "rsa:3072", "okp:Ed25519", "okp:Ed448", "rsafile:8200", "rsafile:16384" };	/* the last two: members longer than 1024 octets */
		static const char *CURVES[] = { "ec:P-256", "ec:P-384", "ec:P-521", "ec:secp256k1" };
		static const int OCTS[] = { 32, 48, 64, 100 };
		int target = a.n > 0 ? (int)a.n : 1;
		const char *dir = a.arg1;
		for (size_t i = 0; i < sizeof(SPECS) / sizeof(*SPECS); i++) {
			vh_key_t k;
			char name[64], *j;
			if (!a.thorough && (!strcmp(SPECS[i], "rsa:3072") || !strcmp(SPECS[i], "rsafile:16384"))) continue;
			if (vh_key_gen(&k, SPECS[i], &rng)) vh_harness_fail("keygen");
			snprintf(name, sizeof(name), "%s", SPECS[i]); name[strcspn(name, ":")] = '_';
			write_pems(dir, name, k.pkey);
			j = vh_key_jwk(&k, 1, NULL, NULL, NULL); write_file(dir, name, ".jwk.json", j, strlen(j)); free(j);
			j = vh_key_jwk(&k, 0, NULL, NULL, NULL); write_file(dir, name, "_pub.jwk.json", j, strlen(j)); free(j);
			{ const char *alg = k.kind == VH_K_OKP ? "EdDSA" : "PS256"; j = vh_key_jwk(&k, 1, alg, NULL, NULL); write_file(dir, name, "_alg.jwk.json", j, strlen(j)); free(j);
			  printf("[\"KEY\",\"%s\",%d,%d,\"%s\",\"%s\",0,0]\n", name, (int)k.kind, k.bits, k.crv, k.kind == VH_K_OKP ? "EdDSA" : "RS256"); }
			vh_key_free(&k);
		}
		/* OKP keys whose raw private or public octet string starts with 0x00 (1 in 256): these are octet strings, not integers */
		for (int c = 0; c < 2; c++) {
			static const char *OS[] = { "okp:Ed25519", "okp:Ed448" };
			int zd = 0, zx = 0;
			for (long tries = 0; tries < 20000 && (!zd || !zx); tries++) {
				vh_key_t k;
				unsigned char raw[64]; size_t rl = sizeof(raw);
				int isd, isx;
				char name[64], *j;
				if (vh_key_gen(&k, OS[c], &rng)) vh_harness_fail("keygen");
				isd = EVP_PKEY_get_raw_private_key(k.pkey, raw, &rl) == 1 && rl > 0 && raw[0] == 0;
				rl = sizeof(raw);
				isx = EVP_PKEY_get_raw_public_key(k.pkey, raw, &rl) == 1 && rl > 0 && raw[0] == 0;
				if ((isd && !zd) || (isx && !zx)) {
					snprintf(name, sizeof(name), "okp_%s_%s", OS[c] + 4, isd && !zd ? "zd" : "zx");
					write_pems(dir, name, k.pkey);
					j = vh_key_jwk(&k, 1, NULL, NULL, NULL); write_file(dir, name, ".jwk.json", j, strlen(j)); free(j);
					j = vh_key_jwk(&k, 0, NULL, NULL, NULL); write_file(dir, name, "_pub.jwk.json", j, strlen(j)); free(j);
					j = vh_key_jwk(&k, 1, "EdDSA", NULL, NULL); write_file(dir, name, "_alg.jwk.json", j, strlen(j)); free(j);
					printf("[\"KEY\",\"%s\",%d,%d,\"%s\",\"EdDSA\",%d,%d]\n", name, (int)k.kind, k.bits, k.crv, isx, isd);
					if (isd && !zd) zd = 1; else zx = 1;
				}
				vh_key_free(&k);
			}
			if (!zd || !zx) vh_harness_fail("no OKP key with a leading zero octet found for %s", OS[c]);
		}
		{	/* a key whose PEM says RSA-PSS (id-RSASSA-PSS), not plain RSA */
			vh_key_t k;
			char *j;
			EVP_PKEY_CTX *c = EVP_PKEY_CTX_new_from_name(NULL, "RSA-PSS", NULL);
			memset(&k, 0, sizeof(k));
			k.kind = VH_K_RSAPSS; k.bits = 2048; snprintf(k.name, sizeof(k.name), "rsapss:2048");
			if (!c || EVP_PKEY_keygen_init(c) <= 0 || EVP_PKEY_CTX_set_rsa_keygen_bits(c, 2048) <= 0 || EVP_PKEY_keygen(c, &k.pkey) <= 0)
				vh_harness_fail("RSA-PSS keygen");
			EVP_PKEY_CTX_free(c);
			write_pems(dir, "rsapss_2048", k.pkey);
			j = vh_key_jwk(&k, 1, NULL, NULL, NULL); write_file(dir, "rsapss_2048", ".jwk.json", j, strlen(j)); free(j);
			j = vh_key_jwk(&k, 0, NULL, NULL, NULL); write_file(dir, "rsapss_2048", "_pub.jwk.json", j, strlen(j)); free(j);
			j = vh_key_jwk(&k, 1, "PS384", NULL, NULL); write_file(dir, "rsapss_2048", "_alg.jwk.json", j, strlen(j)); free(j);
			printf("[\"KEY\",\"rsapss_2048\",%d,%d,\"\",\"PS256\",0,0]\n", (int)k.kind, k.bits);
			EVP_PKEY_free(k.pkey);
		}
		for (size_t c = 0; c < 4; c++) {
			int nzc = 0, nzd = 0, plain = 0, made = 0;
			static const char *ALG[] = { "ES256", "ES384", "ES512", "ES256K" };
			for (long tries = 0; tries < 200000 && (nzc < target || nzd < target || plain < 2); tries++) {
				vh_key_t k;
				int w, zc, zd;
				char name[64], *j;
				if (vh_key_gen(&k, CURVES[c], &rng)) vh_harness_fail("keygen");
				w = (k.bits + 7) / 8;
				zc = lead_zero(k.pkey, OSSL_PKEY_PARAM_EC_PUB_X, w) || lead_zero(k.pkey, OSSL_PKEY_PARAM_EC_PUB_Y, w);
				zd = lead_zero(k.pkey, OSSL_PKEY_PARAM_PRIV_KEY, w);
				if ((zc && nzc < target) || (zd && nzd < target) || (!zc && !zd && plain < 2)) {
					snprintf(name, sizeof(name), "ec_%s_%d", CURVES[c] + 3, made++);
					write_pems(dir, name, k.pkey);
					j = vh_key_jwk(&k, 1, NULL, NULL, NULL); write_file(dir, name, ".jwk.json", j, strlen(j)); free(j);
					j = vh_key_jwk(&k, 0, NULL, NULL, NULL); write_file(dir, name, "_pub.jwk.json", j, strlen(j)); free(j);
					j = vh_key_jwk(&k, 1, ALG[c], NULL, NULL); write_file(dir, name, "_alg.jwk.json", j, strlen(j)); free(j);
					printf("[\"KEY\",\"%s\",%d,%d,\"%s\",\"%s\",%d,%d]\n", name, (int)k.kind, k.bits, k.crv, ALG[c], zc, zd);
					nzc += zc; nzd += zd; if (!zc && !zd) plain++;
				}
				vh_key_free(&k);
			}
			if (nzc < target || nzd < target) vh_harness_fail("could not find enough leading-zero keys for %s", CURVES[c]);
		}
		for (size_t i = 0; i < 10; i++) {
			vh_key_t k;
			char spec[32], name[64], *j;
			static const char *ALG[] = { "HS256", "HS384", "HS512", "HS256", "HS256", "HS384", "HS512", "HS256", "HS256", "HS256" };
			static const int LEN[] = { 32, 48, 64, 100, 32, 48, 64, 33, 40, 32 };
			/* shapes a text-minded tool could mangle: trailing newline, CR, NUL, space; leading newline; embedded NUL */
			static const char *SHAPE[] = { "", "", "", "", "_trailnl", "_trailcr", "_trailnul", "_trailsp", "_leadnl", "_midnul" };
			snprintf(spec, sizeof(spec), "oct:%d", LEN[i]);
			vh_key_gen(&k, spec, &rng);
			/* binary key files that OpenSSL certainly cannot parse as a key: random bytes with a non-ASCII first byte */
			k.oct[0] |= 0x80;
			for (size_t q = 1; q < k.octlen; q++) if (k.oct[q] == 0x0a || k.oct[q] == 0x0d || k.oct[q] == 0) k.oct[q] = 0x55;
			switch (i) {
			case 4: k.oct[k.octlen - 1] = 0x0a; break;
			case 5: k.oct[k.octlen - 1] = 0x0d; break;
			case 6: k.oct[k.octlen - 1] = 0x00; break;
			case 7: k.oct[k.octlen - 1] = 0x20; break;
			case 8: k.oct[0] = 0x0a; k.oct[1] |= 0x80; break;
			case 9: k.oct[k.octlen / 2] = 0x00; break;
			default: break;
			}
			(void)OCTS;
			snprintf(name, sizeof(name), "oct_%d%s", LEN[i], SHAPE[i]);
			write_file(dir, name, ".bin", k.oct, k.octlen);
			j = vh_key_jwk(&k, 1, NULL, NULL, NULL); write_file(dir, name, ".jwk.json", j, strlen(j)); free(j);
			j = vh_key_jwk(&k, 1, ALG[i], NULL, NULL); write_file(dir, name, "_alg.jwk.json", j, strlen(j)); free(j);
			printf("[\"KEY\",\"%s\",%d,%d,\"\",\"%s\",0,0]\n", name, (int)k.kind, k.bits, ALG[i]);
			vh_key_free(&k);
		}
	}
	return 0;
}

# Table of claimed checks; exec'd by bin/mkmanifest.
chk("C11", "exploration", "exhaustive enumeration + online reference-codec oracle under ASan/UBSan",
    "Every byte string of length 0-3 (thorough: all 2^24; quick: lengths 0-2 complete + 2e6 of length 3), every 4-character "
    "group over a 70-symbol alphabet (complete) and over all bytes (thorough: all 2^32; quick: 3e7), every string up to length "
    "6/8 over a 10-class alphabet, and random strings to 64 KiB are pushed through the real encoder/decoder of the rebuilt "
    "library and judged by an independent arithmetic codec; buffer arithmetic is watched by ASan/UBSan.",
    "Trusted: the reference codec in drivers/vh.c (cross-checked against Python's base64 in every run), gcc sanitizers. "
    "Text with interior '=' and non-canonical trailing bits is unjudged (statement silent).",
    "DESIGN.md 3/C11")

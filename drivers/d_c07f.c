/* JWK import while OpenSSL's own allocations fail (C07: every item is bad-with-message or usable; C08: an item without error
 * denotes the key the JWK states; C06-style: no memory error, no leak).
 * OpenSSL's allocator is replaced (CRYPTO_set_mem_functions, installed by a constructor that runs before libjwt's); for every
 * key type, private and public form, the k-th request made during jwks_create() fails (mode 1: only that one, mode 2: that one
 * and all later ones), every k (quick: the first 500 and a sample of the rest).
 *   ["I", idx, key, priv, n_allocs, mode, k, set_null, nitems, item_err, msg_nonempty, has_material, same_as_fault_free]   anomalies only
 *   ["J", idx, key, priv, n_allocs, injected, n_error, n_same, n_null]
 */
#include "vh.h"
#include <openssl/crypto.h>
#include <sanitizer/lsan_interface.h>

static volatile int armed;
static long m_count, m_fail_at;
static int m_mode;

static int should_fail(void)
{
	if (!armed) return 0;
	m_count++;
	if (m_fail_at <= 0) return 0;
	return m_mode == 1 ? m_count == m_fail_at : m_count >= m_fail_at;
}
static void *o_malloc(size_t n, const char *f, int l) { (void)f; (void)l; if (should_fail()) return NULL; return malloc(n); }
static void *o_realloc(void *p, size_t n, const char *f, int l) { (void)f; (void)l; if (should_fail()) return NULL; return realloc(p, n); }
static void o_free(void *p, const char *f, int l) { (void)f; (void)l; free(p); }
static int hooks_ok;
__attribute__((constructor(101))) static void install(void) { hooks_ok = CRYPTO_set_mem_functions(o_malloc, o_realloc, o_free); }

static const char *SPECS[] = { "oct:32", "rsa:2048", "rsa:1024", "rsapss:2048", "ec:P-256", "ec:P-384", "ec:P-521", "ec:secp256k1", "okp:Ed25519", "okp:Ed448" };
#define NSPEC ((int)(sizeof(SPECS) / sizeof(SPECS[0])))

typedef struct { int err, kty, bits, priv, alg; char *pem; unsigned char oct[64]; size_t octlen; char curve[32]; } snap_t;

static void snap(const jwk_item_t *it, snap_t *s)
{
	const unsigned char *b; size_t bl = 0;
	const char *pem = jwks_item_pem(it), *crv = jwks_item_curve(it);
	memset(s, 0, sizeof(*s));
	s->err = jwks_item_error(it); s->kty = (int)jwks_item_kty(it); s->bits = jwks_item_key_bits(it);
	s->priv = jwks_item_is_private(it); s->alg = (int)jwks_item_alg(it);
	s->pem = pem ? strdup(pem) : NULL;
	if (!jwks_item_key_oct(it, &b, &bl) && bl <= sizeof(s->oct)) { memcpy(s->oct, b, bl); s->octlen = bl; }
	snprintf(s->curve, sizeof(s->curve), "%s", crv ? crv : "");
}
static int same(const snap_t *a, const snap_t *b)
{
	return a->kty == b->kty && a->bits == b->bits && a->priv == b->priv && a->alg == b->alg && !strcmp(a->curve, b->curve) &&
	       a->octlen == b->octlen && !memcmp(a->oct, b->oct, a->octlen) && (!a->pem) == (!b->pem) && (!a->pem || !strcmp(a->pem, b->pem));
}

int main(int argc, char **argv)
{
	vh_args_t a;
	vh_rng_t rng;
	long idx = 0;
	unsigned long injected = 0, anomalies = 0;
	vh_parse_args(argc, argv, &a);
	if (!hooks_ok) vh_harness_fail("CRYPTO_set_mem_functions refused");
	vh_rng_seed(&rng, a.seed, 707);
	for (int si = 0; si < NSPEC; si++) {
		vh_key_t k;
		if (vh_key_gen(&k, SPECS[si], &rng)) vh_harness_fail("keygen %s", SPECS[si]);
		for (int priv = 1; priv >= 0; priv--, idx++) {
			char *txt;
			jwk_set_t *set;
			snap_t ref, got;
			long n_allocs, kmax, inj = 0, n_err = 0, n_same = 0, n_null = 0;
			if (k.kind == VH_K_OCT && !priv) continue;
			if (!vh_mine(&a, idx)) continue;
			vh_case_begin(idx, "\"key\":\"%s\",\"priv\":%d", SPECS[si], priv);
			txt = vh_key_jwk(&k, priv, k.kind == VH_K_OCT ? "HS256" : k.kind == VH_K_OKP ? "EdDSA" : NULL, "fault-kid", NULL);
			if (!txt) vh_harness_fail("jwk text");
			/* fault-free reference (twice: the first import warms OpenSSL's caches) */
			set = jwks_create(txt); jwks_free(set);
			m_fail_at = 0; m_count = 0; armed = 1;
			set = jwks_create(txt);
			armed = 0;
			n_allocs = m_count;
			if (!set || jwks_item_count(set) != 1 || jwks_item_error(jwks_item_get(set, 0)))
				vh_harness_fail("fault-free import of %s failed: %s", SPECS[si], set && jwks_item_count(set) ? jwks_item_error_msg(jwks_item_get(set, 0)) : "no set");
			snap(jwks_item_get(set, 0), &ref);
			jwks_free(set);
			kmax = n_allocs;
			if (!a.thorough && kmax > 500) kmax = 500;
			for (int pass = 0; pass < 2; pass++) {
				long cnt = pass == 0 ? kmax * 2 : (!a.thorough && n_allocs > 500 ? 300 : 0);
				for (long q = 0; q < cnt; q++) {
					int mode = pass == 0 ? 1 + (int)(q / kmax) : 1 + (int)(q & 1);
					long kk = pass == 0 ? 1 + q % kmax : 501 + (long)vh_below(&rng, (uint64_t)(n_allocs - 500));
					int anomaly = 0, set_null, nitems = -1, ierr = -1, msgne = -1, mat = -1, sm = -1;
					m_mode = mode; m_fail_at = kk; m_count = 0; armed = 1;
					set = jwks_create(txt);
					armed = 0;
					inj++;
					set_null = set == NULL;
					if (set) {
						nitems = (int)jwks_item_count(set);
						if (nitems == 1) {
							const jwk_item_t *it = jwks_item_get(set, 0);
							snap(it, &got);
							ierr = got.err; msgne = jwks_item_error_msg(it)[0] != 0;
							mat = got.pem != NULL || got.octlen > 0;
							sm = same(&ref, &got);
							if (ierr) { n_err++; if (!msgne) anomaly = 1; }
							else { if (sm) n_same++; else anomaly = 1; }
							free(got.pem);
						} else if (nitems == 0) {
							/* no item: acceptable only if the set itself reports the failure */
							if (!jwks_error(set)) anomaly = 1; else n_err++;
						} else anomaly = 1;
						jwks_free(set);
					} else n_null++;
					if (anomaly) {
						anomalies++;
						printf("[\"I\",%ld,\"%s\",%d,%ld,%d,%ld,%d,%d,%d,%d,%d,%d]\n", idx, SPECS[si], priv, n_allocs, mode, kk, set_null, nitems, ierr, msgne, mat, sm);
					}
				}
			}
			injected += (unsigned long)inj;
			printf("[\"J\",%ld,\"%s\",%d,%ld,%ld,%ld,%ld,%ld]\n", idx, SPECS[si], priv, n_allocs, inj, n_err, n_same, n_null);
			free(ref.pem);
			free(txt);
		}
		vh_key_free(&k);
	}
	printf("[\"STATS\",%lu,%lu]\n", injected, anomalies);
	return 0;
}

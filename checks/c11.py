"""C11 — base64url encoding/decoding are exact inverses and reject foreign bytes."""
import base64, json
import vf


def _merge(rep, outs, label):
    st = dict(eval=0, judged=0, unjudged=0, reject_ok=0, roundtrip=0, viol=0, desc=0)
    for ev in vf.read_jsonl(outs):
        if "stats" in ev:
            for k in st:
                st[k] += ev["stats"].get(k, 0)
            cls = ev["stats"].get("cls", [])
            for i, c in enumerate(cls):
                rep.count("%s.class%d" % (label, i), c)
        elif "viol" in ev:
            rep.violation("%s:%s" % (label.split(".")[0], ev["viol"]), ev["what"], ev)
        elif "sample" in ev:
            rep.sample(ev)
    for k, v in st.items():
        rep.count("%s.%s" % (label, k), v)
    rep.evaluations += st["eval"]
    return st


def run(tier, seed, replay):
    rep = vf.Report("C11", tier, seed)
    rep.rule = ("cases are byte strings / 4-character groups enumerated completely or along a full-period "
                "stride (so every case is distinct by construction); a case is non-trivial when the statement "
                "judges it: encoder output vs RFC 4648 s5, decode(encode(x))==x, canonical text decoding to "
                "the reference bytes, or text with a foreign byte before '=' / length 1 mod 4 being rejected. "
                "distinct_nontrivial = judged cases of the enumerated modes + distinct (kind,length) descriptors "
                "of the random long-string mode; a dictionary mode places one multi-character affix (URL/HTML/JSON escapes of =, + and /, line ends, quotes, BOM; 77 affixes) at the end, start or middle of alphabet text of 33 lengths")
    rep.assumptions = ["reference codec drivers/vh.c:vh_b64u_* (arithmetic, no tables) is correct; cross-checked "
                       "against Python's base64 module on samples in this run",
                       "text containing '=' before the end, and non-canonical trailing bits, are unjudged"]
    rd = vf.run_dir("C11")
    asan = vf.driver("d_c11", "asan", extra_flags="-pthread")
    fast = vf.driver("d_c11", "ubsan-fast", extra_flags="-pthread")
    n = vf.NCPU
    thorough = tier == "thorough"
    distinct = 0
    plan = [
        ("enc", asan, ["--mode", "enc", "--n", 0 if thorough else 2000000]),
        ("cls", asan, ["--mode", "cls", "--n", 8 if thorough else 6]),
        ("rand", asan, ["--mode", "rand", "--n", 40000 if thorough else 4000]),
        ("dict", asan, ["--mode", "dict"]),
        ("grp4a", fast, ["--mode", "grp4a"]),
        ("grp4", fast, ["--mode", "grp4", "--n", 0 if thorough else 30000000]),
    ]
    for label, binary, args in plan:
        outs, crashes = vf.run_shards(binary, args + ["--seed", seed, "--tier", tier], n, rd, tag=label)
        rep.crash_violations(crashes, prefix=label + ":")
        st = _merge(rep, outs, label)
        distinct += st["desc"] if label == "rand" else st["judged"]
        vf.need(rep, st["judged"] > 0, "%s: nothing judged" % label)
        vf.need(rep, st["roundtrip"] > 0 or label.startswith("grp4"), "%s: no round trip observed" % label)
        if label in ("cls", "rand", "grp4a", "grp4"):
            vf.need(rep, st["reject_ok"] > 0, "%s: no rejection observed (positive control)" % label)
    # cold starts: fresh processes in which 12 threads make the very first encode/decode calls at once (plain and ASan builds);
    # each "shard" is one process
    plain = vf.driver("d_c11", "plain", extra_flags="-pthread")
    for label, binary, procs in (("cold-plain", plain, 256 if thorough else 64), ("cold-asan", asan, 32 if thorough else 16)):
        for batch in range(procs // n if procs >= n else 1):
            outs, crashes = vf.run_shards(binary, ["--mode", "cold", "--seed", seed * 1000 + batch, "--tier", tier], min(n, procs), rd, tag="%s%d" % (label, batch))
            rep.crash_violations(crashes, prefix=label + ":")
            st = _merge(rep, outs, label)
            rep.count("cold_start_processes", min(n, procs))
    vf.need(rep, rep.counters.get("cold_start_processes", 0) >= 32, "cold-start processes did not run")
    # cross-check the reference codec itself against Python on a sample (third opinion)
    import random
    rng = random.Random(seed)
    refbin = vf.driver("d_refcodec", "plain")
    import subprocess
    inp = []
    for i in range(2000):
        b = bytes(rng.getrandbits(8) for _ in range(rng.choice([0, 1, 2, 3, 4, 5, 31, 32, 33, 255, 1000])))
        inp.append(b.hex())
    r = subprocess.run([refbin], input="\n".join(inp) + "\n", capture_output=True, text=True)
    if r.returncode != 0:
        raise vf.HarnessFailure("d_refcodec failed: " + r.stderr[-500:])
    lines = r.stdout.split("\n")
    bad = 0
    for hx, got in zip(inp, lines):
        exp = base64.urlsafe_b64encode(bytes.fromhex(hx)).rstrip(b"=").decode()
        if got != exp:
            bad += 1
    rep.count("refcodec_vs_python.checked", len(inp))
    if bad:
        raise vf.HarnessFailure("reference codec disagrees with Python base64 on %d inputs" % bad)
    rep.distinct_n = distinct
    rep.exhaustive = thorough
    rep.extra["explored"] = dict(enc_len_0_2="complete", enc_len_3="complete" if thorough else "2e6 along stride",
                                 groups4_alphabet70="complete (70^4)",
                                 groups4_all_bytes="complete 2^32" if thorough else "3e7 along stride",
                                 class_alphabet_len=8 if thorough else 6)
    return rep

"""C02 — algorithm pinning: a token cannot choose its own algorithm or key family."""
import vf
from monitors import policy_model as pm

KEYS_FULL = "none,oct:64,oct:32,oct:256,rsa:2048,rsapss:2048,ec:P-256,ec:P-384,ec:P-521,ec:secp256k1,ec:brainpoolP256r1,ec:brainpoolP384r1,ec:brainpoolP512r1,ec:secp224r1,okp:Ed25519,okp:Ed448"
KEYS_QUICK = "none,oct:64,oct:32,rsa:2048,ec:P-256,ec:P-384,ec:secp256k1,ec:brainpoolP512r1,okp:Ed25519"


def spec(tier):
    if tier == "thorough":
        return ("prov=0,1;route=0..11;cfg=0..15;keys=%s;kalg=-1..15;pub=0,1;hdr=0..63;sig=0..5;op=v,g" % KEYS_FULL)
    # quick: key-alg axis reduced to {absent, "none", one per family, unknown}; header variants reduced
    return ("prov=0,1;route=0,1,2,3,5,6,7,8,9,10,11;cfg=0..15;keys=%s;kalg=-1,0,1,4,7,8,10,14,15;pub=0,1;"
            "hdr=0..14,15,16,17,23,27,28,29,35,36,37,38,39,40,42,45,46,47,48,50,52,53,54,56,60;sig=0..4;op=v,g" % KEYS_QUICK)


def merge(rep, results, prop):
    for r in results:
        rep.evaluations += r["n"]
        rep.distinct |= r["distinct"]
        for k, what, wit in r["viol"]:
            rep.violation(k, what, wit)
        for s in r["samples"]:
            rep.sample(s)
        for k, v in r["c"].items():
            rep.count(k, v)


def run(tier, seed, replay):
    rep = vf.Report("C02", tier, seed)
    rep.rule = ("complete cross product of provider x route (setkey, four callback routes, three setkey histories: a refused call after an admitted one and an admitted one after another) x configured alg x key x key alg attribute x public/private x "
                "header alg variant x signature kind; one event per setkey/verify/generate call; distinct = distinct "
                "(route, effective alg, key kind, key alg, pub, header variant, signature kind, outcome) tuples judged by the table model")
    rep.assumptions = ["reference signer/verifier = OpenSSL EVP called directly by drivers/vh.c",
                       "ES256/ES256K are judged by curve size only (statement: 'EC of matching size')",
                       "setkey's return value when JWT_ALG_INVAL or an unknown key alg string is involved is unjudged; nothing may succeed with them"]
    rd = vf.run_dir("C02")
    b = vf.driver("d_policy", "asan")
    args = ["--arg1", spec(tier), "--seed", seed, "--tier", tier]
    if replay and replay.get("witness", {}).get("idx") is not None:
        args += ["--only", replay["witness"]["idx"]]
        outs, crashes = vf.run_shards(b, args, 1, rd)
    else:
        outs, crashes = vf.run_shards(b, args, vf.NCPU, rd, timeout=3000)
    rep.crash_violations(crashes)
    keys, hdrs = pm.load_meta(outs)
    if replay:
        # --only suppresses K/H lines of other shards; regenerate meta from a normal shard-0 prefix is not needed:
        pass
    res = vf.pmap(pm.judge, [(p, "C02", keys, hdrs) for p in outs])
    merge(rep, res, "C02")
    c = rep.counters
    vf.need(rep, c.get("accepted", 0) > 0, "no token was accepted at all (positive control)")
    vf.need(rep, c.get("produced", 0) > 0, "no token was produced at all (positive control)")
    if not replay:
        for prov in ("openssl", "gnutls"):
            for fam_alg in ("HS256", "RS256", "ES256", "EdDSA"):
                vf.need(rep, c.get("accepted.%s.%s" % (prov, fam_alg), 0) > 0,
                        "no accepted %s token on %s (positive control)" % (fam_alg, prov))
        vf.need(rep, any(k.startswith("hook.") for k in c), "primitive hook never fired (library built without -DLIBJWT_VERIF?)")
    rep.exhaustive = (tier == "thorough")
    rep.extra["matrix"] = spec(tier)
    return rep

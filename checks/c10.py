"""C10 — generated tokens are well-formed and say exactly what the builder was told."""
import base64, hashlib, hmac, json, re
import vf
from checks.c15 import strict_eq

ALGN = {0: "none", 1: "HS256", 2: "HS384", 3: "HS512", 7: "ES256", 10: "PS256", 14: "EdDSA"}
EXP, NBF = 8, 16
B64 = re.compile(r"^[A-Za-z0-9_-]*$")


def b64d(seg):
    if not B64.match(seg) or len(seg) % 4 == 1:
        return None
    raw = base64.urlsafe_b64decode(seg + "=" * (-len(seg) % 4))
    if base64.urlsafe_b64encode(raw).decode().rstrip("=") != seg:
        return None        # non-canonical trailing bits
    return raw


class Builder:
    def __init__(self):
        self.h, self.c = {}, {}
        self.iat = True
        self.exp = self.nbf = None
        self.key = None      # (name, alg)
        self.script = None

    def expected(self, now):
        H = json.loads(json.dumps(self.h)); P = json.loads(json.dumps(self.c))
        if self.iat:
            P["iat"] = now
        if self.nbf is not None:
            P["nbf"] = now + self.nbf
        if self.exp is not None:
            P["exp"] = now + self.exp
        s = self.script
        if s:
            for which, kind, name, vtext in s["ops"]:
                tgt = H if which == "h" else P
                if kind == "D":
                    if name is None:
                        tgt.clear()
                    else:
                        tgt.pop(name, None)
                else:
                    try:
                        v = json.loads(vtext)
                    except Exception:
                        continue            # malformed JSON text: the set inside the callback is refused, nothing changes
                    if kind == "S" or name not in tgt:
                        tgt[name] = v
        alg = self.key[1] if self.key else 0
        if s and s.get("pick_key"):
            alg = s["pick_alg"]        # the callback selected key and alg for this one token
        if alg != 0:
            H.setdefault("typ", "JWT")
        H["alg"] = ALGN[alg]
        return H, P, alg


def judge(path, octkeys):
    out = dict(n=0, distinct=set(), viol=[], samples=[], c={})
    c = out["c"]
    b, hist = None, []

    def cnt(k):
        c[k] = c.get(k, 0) + 1

    def viol(key, what, ev):
        cnt("viol")
        if len(out["viol"]) < 60:
            out["viol"].append((key, what, dict(history=ev[1], ops=hist[-12:], failing=ev)))

    with open(path, errors="replace") as fh:
        for line in fh:
            if not line.startswith("["):
                continue
            try:
                ev = json.loads(line)
            except Exception:
                continue
            t = ev[0]
            if t == "K":
                continue
            if t == "N":
                b, hist = Builder(), []
                continue
            hist.append(ev)
            out["n"] += 1
            if t == "S":
                _, h, which, typ, name, vtext, replace, rc = ev
                tgt = b.h if which == "h" else b.c
                bad_json = False
                if typ == 4:
                    try:
                        bad_json = not isinstance(json.loads(vtext), (dict, list))
                    except Exception:
                        bad_json = True
                if bad_json:
                    # a JSON value that does not parse (or is a scalar): refused, and the builder keeps what it had - also under replace
                    cnt("refused_json_sets")
                    if rc == 0:
                        viol("builder-set-rc", "set of a malformed JSON value returned 0", ev)
                    continue
                if name in tgt and not replace:
                    exp = 1
                else:
                    exp = 0
                    tgt[name] = json.loads(vtext)
                if rc != exp:
                    viol("builder-set-rc", "set returned %d, model %d" % (rc, exp), ev)
            elif t == "D":
                _, h, which, name, rc = ev
                tgt = b.h if which == "h" else b.c
                if name is None:
                    tgt.clear()
                else:
                    tgt.pop(name, None)
            elif t == "I":
                _, h, en, ret = ev
                if ret != (1 if b.iat else 0):
                    viol("enable_iat-return", "enable_iat returned %d, previous state was %s" % (ret, b.iat), ev)
                b.iat = bool(en)
            elif t == "T":
                _, h, cl, secs, rc = ev
                if cl in (EXP, NBF):
                    v = secs if secs > 0 else None
                    if cl == EXP:
                        b.exp = v
                    else:
                        b.nbf = v
                    if rc != 0:
                        viol("time_offset-return", "time_offset refused EXP/NBF", ev)
                elif rc == 0:
                    viol("time_offset-return", "time_offset accepted a claim other than EXP/NBF", ev)
            elif t == "Y":
                _, h, kname, alg, rc = ev
                if kname is None:
                    if rc == 0:
                        b.key = None
                elif kname.startswith("pub:"):
                    cnt("setkey_public_attempts")
                    if rc == 0:
                        viol("setkey-accepts-public-key", "jwt_builder_setkey accepted a public-only key", ev)
                        b.key = (kname, alg)
                else:
                    if rc == 0:
                        b.key = (kname, alg)
                    else:
                        viol("setkey-refuses-private-key", "jwt_builder_setkey refused a usable key", ev)
            elif t == "B":
                b.script = ev[2]
            elif t == "G":
                _, h, now, tok, ef, msgne, hb, cb_, ha, ca, refvalid, cbran = ev
                cnt("generate")
                if hb != ha or cb_ != ca:
                    viol("builder-changed-by-generate", "builder headers/claims differ before and after generate", ev)
                try:
                    if not strict_eq(json.loads(ha), b.h) or not strict_eq(json.loads(ca), b.c):
                        viol("builder-state-differs-from-model", "builder snapshot differs from the model (a callback edit leaked into the builder?)", ev)
                        b.h, b.c = json.loads(ha), json.loads(ca)
                except Exception:
                    viol("builder-snapshot-unreadable", "snapshot not JSON", ev)
                H, P, alg = b.expected(now)
                must_fail = bool(b.script and (b.script["ret"] or b.script["pick_pub"]))
                out["distinct"].add((alg, b.iat, b.exp is not None, b.nbf is not None, "typ" in b.h, "alg" in b.h, bool(b.script), bool(b.script and b.script.get("pick_key")),
                                     must_fail, tok is None, any(k in b.c for k in ("iat", "nbf", "exp"))))
                if tok is None:
                    cnt("null_tokens")
                    if not must_fail:
                        viol("unexpected-null", "generate returned NULL although key, alg and callback are fine", ev)
                    continue
                if must_fail:
                    viol("token-despite-%s" % ("callback-error" if b.script["ret"] else "public-key-from-callback"),
                         "generate returned a token although it had to fail", ev)
                    continue
                cnt("tokens")
                parts = tok.split(".")
                if len(parts) == 3:
                    sil = len(parts[0]) + 1 + len(parts[1])
                    for m_ in (64, 128, 256, 512, 1000, 1024, 2048, 4096, 8192, 16384, 65536):
                        if abs(sil - m_) <= 2:
                            out["distinct"].add(("signing-input-length", sil))
                            cnt("signing_inputs_within_2_of_a_buffer_size")
                if len(parts) != 3:
                    viol("shape", "token does not have three segments", ev)
                    continue
                raw = [b64d(p) for p in parts]
                if any(r is None for r in raw):
                    viol("segment-not-unpadded-base64url", "a segment is not canonical unpadded base64url", ev)
                    continue
                try:
                    th = json.loads(raw[0].decode("latin-1")); tp = json.loads(raw[1].decode("latin-1"))
                except Exception:
                    viol("segment-not-json", "header or payload is not JSON", ev)
                    continue
                if not isinstance(th, dict) or not isinstance(tp, dict):
                    viol("segment-not-object", "header or payload is not a JSON object", ev)
                    continue
                if not strict_eq(th, H):
                    diff = sorted(set(k for k in set(th) | set(H) if k not in th or k not in H or not strict_eq(th[k], H[k])))
                    viol("header:%s" % ",".join(diff)[:40], "token header %r, model %r" % (th, H), ev)
                if not strict_eq(tp, P):
                    diff = sorted(set(k for k in set(tp) | set(P) if k not in tp or k not in P or not strict_eq(tp[k], P[k])))
                    viol("payload:%s" % ",".join(diff)[:40], "token payload %r, model %r" % (tp, P), ev)
                if alg == 0:
                    if parts[2] != "":
                        viol("unsigned-token-has-signature", "alg none token with non-empty third segment", ev)
                else:
                    if refvalid < 1:
                        viol("signature-invalid:%s" % ALGN[alg], "signature does not verify under the builder's key (reference)", ev)
                    kn = b.key[0] if b.key and not (b.script and b.script.get("pick_key")) else None
                    if kn in octkeys:
                        dig = {1: hashlib.sha256, 3: hashlib.sha512}[alg]
                        mac = hmac.new(octkeys[kn], (parts[0] + "." + parts[1]).encode(), dig).digest()
                        cnt("hmac_checked_in_python")
                        if mac != raw[2]:
                            viol("signature-invalid:python-hmac", "HMAC recomputed in Python differs", ev)
                if len(out["samples"]) < 2:
                    out["samples"].append(dict(now=now, token=tok[:160], header=th, payload=tp))
    return out


def run(tier, seed, replay):
    rep = vf.Report("C10", tier, seed)
    rep.rule = ("random histories (3-17 steps) of header/claim set/del of every value type, enable_iat, time_offset (<=0, positive, 2^31, 2^40), "
                "setkey (none, HS256, HS512, ES256, EdDSA, PS256, public-only), setcb (scripts that add/replace/delete headers and claims "
                "incl. alg, typ, iat, nbf, exp; failing; selecting a public key) interleaved with generate at clock values {0,1,2^31,1.7e9,2^40,random}; "
                "both providers; then a size sweep (one string claim sized so that the signing input takes every length within +-12 of 64..65536 "
                "under three header lengths; unsigned, HS256, ES256). distinct = distinct (alg, iat on, exp on, nbf on, user typ?, user alg?, callback?, must-fail, NULL?, "
                "time claims preset?) tuples")
    rep.assumptions = ["Python's base64/json/hmac decode and re-verify tokens; ECDSA/EdDSA/PSS signatures are checked by the OpenSSL reference in the driver",
                       "clock supplied by the harness"]
    rd = vf.run_dir("C10")
    b = vf.driver("d_c10", "asan", clock=True)
    n = 400000 if tier == "thorough" else 12000
    args = ["--n", n, "--seed", seed]
    if replay and (replay.get("witness") or {}).get("history") is not None:
        args += ["--only", replay["witness"]["history"]]
    outs, crashes = vf.run_shards(b, args, vf.NCPU, rd, timeout=3000)
    rep.crash_violations(crashes)
    if not replay:
        outs_z, crashes_z = vf.run_shards(b, ["--mode", "size", "--seed", seed], vf.NCPU, rd, tag="z", timeout=3000)
        rep.crash_violations(crashes_z, prefix="size:")
        outs = outs + outs_z
    octkeys = {}
    for ev in vf.read_jsonl([]):
        pass
    for p in outs:
        with open(p) as fh:
            for line in fh:
                if line.startswith('["K"'):
                    ev = json.loads(line); octkeys[ev[1]] = bytes.fromhex(ev[3])
                elif line.startswith('["N"'):
                    break
    for r in vf.pmap(judge, [(p, octkeys) for p in outs]):
        rep.evaluations += r["n"]
        rep.distinct |= r["distinct"]
        for k, what, wit in r["viol"]:
            rep.violation(k, what, wit)
        for s in r["samples"]:
            rep.sample(s)
        for k, v in r["c"].items():
            rep.count(k, v)
    if not replay:
        vf.need(rep, rep.counters.get("tokens", 0) > 1000, "too few tokens generated")
        vf.need(rep, rep.counters.get("null_tokens", 0) > 50, "too few failing generates")
        vf.need(rep, len([d for d in rep.distinct if d[0] == "signing-input-length"]) >= 50, "size sweep did not reach the lengths around the buffer sizes")
        vf.need(rep, rep.counters.get("hmac_checked_in_python", 0) > 100, "python HMAC oracle hardly used")
    return rep

"""C07 — arbitrary JWK/JWKS input: no crash, and a well-formed keyring comes back."""
import json, os, random, subprocess, copy
import vf
from checks import c06

MEMBERS = ["kty", "alg", "use", "key_ops", "kid", "n", "e", "d", "p", "q", "dp", "dq", "qi", "crv", "x", "y", "k"]
ABSENT = object()
SUBST = [ABSENT, None, True, 0, -1, 1.5, "", "!", "A", "AA=A", "AAAA", "Q" * 10240, [], [1], {}, {"a": 1}, "%s%s%s%s%n", "%999999d%n"]
KTY = {"EC": 1, "RSA": 2, "OKP": 3, "oct": 4}


def templates(seed, rd):
    b = vf.driver("d_c07", "asan")
    env = dict(os.environ); env.update(vf.SAN_ENV)
    r = subprocess.run([b, "--mode", "dump", "--seed", str(seed)], capture_output=True, text=True, env=env)
    if r.returncode != 0:
        raise vf.HarnessFailure("template dump failed: " + r.stderr[-800:])
    t = [json.loads(l) for l in r.stdout.splitlines() if l.startswith("{")]
    # RSA-PSS flavoured templates (alg PS256) and ones that carry metadata
    extra = []
    for k in t:
        if k["kty"] == "RSA":
            kk = dict(k); kk["alg"] = "PS256"; extra.append(kk)
    for i, k in enumerate(t):
        k.setdefault("kid", "tmpl-%d" % i)
    return t + extra


def apply(doc, member, sub):
    d = copy.copy(doc)
    if sub is ABSENT:
        d.pop(member, None)
    else:
        d[member] = sub
    return d


def gen_docs(tier, seed, tmpl):
    """yields (entry or None, bytes)"""
    rng = random.Random(seed)
    docs = []
    # 1. exhaustive single-fault matrix through jwks_create (entry 0) and a rotating second entry point
    for ti, t in enumerate(tmpl):
        for m in MEMBERS:
            for s in SUBST:
                d = apply(t, m, s)
                d["kid"] = d.get("kid") if m == "kid" else "t%d-%s" % (ti, m)
                txt = json.dumps(d).encode()
                docs.append((0, txt))
                if tier == "thorough" or rng.random() < 0.25:
                    docs.append((None, txt))
    # 2. pairs of faults (sampled in quick, large sample in thorough)
    npairs = 150000 if tier == "thorough" else 3000
    for i in range(npairs):
        t = rng.choice(tmpl)
        d = apply(apply(t, rng.choice(MEMBERS), rng.choice(SUBST)), rng.choice(MEMBERS), rng.choice(SUBST))
        docs.append((None, json.dumps(d).encode()))
    # 3. sets mixing good and bad elements; "keys" of every JSON type
    bads = [None, 1, "str", [], {}, {"kty": "nope"}, {"kty": 5}, {"kty": "RSA"}, {"kty": "EC", "crv": "P-256"}, {"kty": "oct"},
            {"kty": "oct", "k": ""}, {"kty": "OKP", "crv": "Ed25519"}, {"kty": "OKP", "crv": "X25519", "x": "AAAA"}, True, 1.5]
    nsets = 4000 if tier == "thorough" else 400
    for i in range(nsets):
        n = rng.choice([0, 1, 2, 3, 5, 8, 20])
        els = []
        for j in range(n):
            if rng.random() < 0.5:
                e = dict(rng.choice(tmpl)); e["kid"] = "s%d-%d" % (i, j)
                if rng.random() < 0.3:
                    e = apply(e, rng.choice(MEMBERS), rng.choice(SUBST))
                    if isinstance(e.get("kid"), str) is False:
                        pass
            else:
                e = copy.deepcopy(rng.choice(bads))
                if isinstance(e, dict) and rng.random() < 0.7:
                    e["kid"] = "s%d-%d" % (i, j)
            els.append(e)
        doc = {"keys": els}
        if rng.random() < 0.2:
            doc["extra"] = {"keys": [1, 2]}
        docs.append((None, json.dumps(doc).encode()))
    # long sets: element counts past 255 / 1024 (one item per element, in order), bad elements at the byte-width corners
    for n in ([300, 1100] if tier != "thorough" else [255, 256, 257, 300, 1023, 1025, 4100]):
        els = [dict(tmpl[0], kid="L%d" % j) for j in range(n)]
        docs.append((None, json.dumps({"keys": els}).encode()))
        for j in (0, 254, 255, 256, n - 1):
            if j < n:
                els[j] = copy.deepcopy(bads[(j + n) % len(bads)])
                if isinstance(els[j], dict):
                    els[j]["kid"] = "Lbad%d" % j
        docs.append((None, json.dumps({"keys": els}).encode()))
    # repeated kids (RFC 7517 4.5 allows them): within one document, and equal to the kid of the item the set already holds (entry 1 / 10)
    for kidv in ("dup", "pre-existing", "", "a+b/c", "a-b_c"):
        for ti in range(len(tmpl)):
            a_, b_ = tmpl[ti], tmpl[(ti + 1) % len(tmpl)]
            docs.append((None, json.dumps({"keys": [dict(a_, kid=kidv), dict(b_, kid=kidv), dict(a_, kid=kidv)]}).encode()))
            docs.append((1, json.dumps({"keys": [dict(a_, kid=kidv), dict(b_, kid="other"), dict(b_, kid=kidv)]}).encode()))
            docs.append((1, json.dumps(dict(a_, kid=kidv)).encode()))
    # elements (and single JWKs inside a set) that themselves carry a member named "keys": still exactly one item each
    for inner in [[], None, "x", 5, {}, [{"kty": "oct", "k": "AAAA", "kid": "inner-1"}], [{"kty": "oct", "k": "AAAA", "kid": "inner-1"}, {"kty": "nope", "kid": "inner-2"}]]:
        for base in (tmpl[0], tmpl[3 % len(tmpl)], {"kty": "nope"}, {}):
            el = dict(base); el["kid"] = "nested-el"; el["keys"] = inner
            docs.append((None, json.dumps({"keys": [dict(tmpl[0], kid="first"), el, dict(tmpl[0], kid="last")]}).encode()))
            docs.append((0, json.dumps({"keys": [el]}).encode()))
    for kv in [None, 1, "x", True, {}, {"kty": "oct", "k": "AAAA"}, 1.5, [], [[]], [[{"kty": "oct", "k": "AAAA"}]]]:
        docs.append((None, json.dumps({"keys": kv}).encode()))
        docs.append((0, json.dumps({"keys": kv, "kty": "oct", "k": "AAAA"}).encode()))
    # base64url members carrying '=' padding (correct, short, excessive) or surrounded by blanks: the item is bad or usable, never silent
    for t in tmpl:
        for m in ("k", "n", "e", "d", "x", "y", "p", "q", "dp", "dq", "qi"):
            if isinstance(t.get(m), str):
                v = t[m]
                for v2 in (v + "=" * ((-len(v)) % 4), v + "=", v + "==", v + "===", "=" + v, v + " ", " " + v, v[:-1] + "=", v + "\n"):
                    if v2 != v:
                        docs.append((None, json.dumps(dict(t, **{m: v2})).encode()))
                        docs.append((None, json.dumps({"keys": [dict(tmpl[0], kid="first"), dict(t, **{m: v2}, kid="pad"), dict(tmpl[0], kid="last")]}).encode()))
    # file-based entry points: documents whose size is exactly / one off a read-buffer multiple (blank padded, still valid JSON)
    for size in (511, 512, 513, 1023, 1024, 1025, 4095, 4096, 4097, 8191, 8192, 8193, 16384, 65535, 65536, 65537):
        base = json.dumps({"keys": [dict(tmpl[0], kid="blk-a"), dict(tmpl[-1], kid="blk-b")]}).encode()
        if len(base) < size:
            for e in (5, 6, 7, 8, 13, 2):
                docs.append((e, base + b" " * (size - len(base))))
                docs.append((e, b" " * (size - len(base)) + base))
    # 4. documents that are JSON but not objects, non-JSON text, random bytes, truncations
    for t in [b"", b" ", b"null", b"1", b"\"str\"", b"[]", b"[{\"kty\":\"oct\",\"k\":\"AAAA\"}]", b"{", b"}", b"{\"kty\":\"oct\",\"k\":\"AAAA\"}x",
              b"{\"kty\":\"oct\",\"k\":\"AAAA\"} ", b"\xef\xbb\xbf{}", b"{'kty':'oct'}", b"{\"kty\":\"oct\",}", b"NaN", b"{\"a\":NaN}", b"{\"a\":1e400}",
              b"{\"a\":123456789012345678901234567890}", b"{\"kty\":\"oct\",\"k\":\"AA\\u0000AA\"}", b"{\"kty\":\"o\\u0000ct\"}", b"{\"kty\":\"\\ud800\"}",
              b"{\"kty\":\"oct\",\"k\":\"AAAA\",\"kty\":\"RSA\"}", b"{\"kty\":\"oct\"\x00,\"k\":\"AAAA\"}", b"{\"kty\":\"oct\",\"k\":\"AAAA\"}\x00garbage",
              b"{\"kty\":\"\xff\"}", b"\x00", b"[" * 3000 + b"]" * 3000, b"{\"keys\":" + b"[" * 100 + b"]" * 100 + b"}"]:
        for e in range(15):
            docs.append((e, t))
    nrand = 20000 if tier == "thorough" else 1500
    good = [json.dumps(t).encode() for t in tmpl]
    for i in range(nrand):
        k = rng.random()
        if k < 0.3:
            docs.append((None, bytes(rng.getrandbits(8) for _ in range(rng.choice([1, 5, 40, 300])))))
        elif k < 0.8:
            g = bytearray(rng.choice(good))
            for _ in range(rng.choice([1, 1, 2, 3])):
                pos = rng.randrange(len(g))
                op = rng.random()
                if op < 0.4:
                    g[pos] = rng.getrandbits(8)
                elif op < 0.7:
                    del g[pos]
                else:
                    g.insert(pos, rng.choice(b"{}[]\",:\\x 0e-"))
            docs.append((None, bytes(g)))
        else:
            g = rng.choice(good)
            docs.append((None, g[:rng.randrange(len(g))]))
    return docs


I64 = 1 << 63


class Amb(Exception):
    pass


def _const(x):
    raise Amb("nan-literal")


def _walk(v, depth=0):
    if depth > 400:
        raise Amb("deep")
    if type(v) is int and not (-I64 <= v < I64):
        raise Amb("bigint")
    if type(v) is float and (v != v or v in (float("inf"), float("-inf"))):
        raise Amb("float-overflow")
    if isinstance(v, str):
        if "\x00" in v:
            raise Amb("nul-escape")
        try:
            v.encode("utf-8")
        except UnicodeEncodeError:
            raise Amb("lone-surrogate")
    if isinstance(v, dict):
        for k, x in v.items():
            _walk(k, depth + 1); _walk(x, depth + 1)
    if isinstance(v, list):
        for x in v:
            _walk(x, depth + 1)


def reference(text):
    """returns ("notjson"|"json"|"ambiguous", value)"""
    try:
        s = text.decode("utf-8")
    except UnicodeDecodeError:
        return "notjson", None
    if "\x00" in s:
        return "notjson", None
    try:
        v = json.loads(s, parse_constant=_const)
        _walk(v)
    except Amb as a:
        return "ambiguous", str(a)
    except RecursionError:
        return "ambiguous", "deep"
    except Exception:
        # Python's reader is stricter than RFC 8259 nowhere relevant except: it rejects a BOM (so does jansson)
        return "notjson", None
    if "1e" in s.lower() or "E" in s:
        pass
    return "json", v


def judge(path):
    out = dict(n=0, distinct=set(), viol=[], samples=[], c={})
    c = out["c"]

    def cnt(k, n=1):
        c[k] = c.get(k, 0) + n

    def viol(key, what, ev, text, extra=None):
        cnt("viol")
        if len(out["viol"]) < 100:
            w = dict(doc_index=ev[1], entry=ev[2], text_hex=text[:3000].hex(), text=text[:400].decode("latin-1"), outcome=ev[4:])
            if extra:
                w.update(extra)
            out["viol"].append((key, what, w))

    with open(path, errors="replace") as fh:
        for line in fh:
            if not line.startswith('["J"'):
                if line.startswith('["STATS"'):
                    out["n"] += json.loads(line)[1]
                continue
            try:
                ev = json.loads(line)
            except Exception:
                continue
            _, idx, entry, hx, set_null, set_err, set_msg, before, after, items = ev
            text = bytes.fromhex(hx)
            kind, v = reference(text)
            cnt("entry.%d" % entry)
            if set_null:
                cnt("null_set")
                viol("null-set:entry%d" % entry, "load returned NULL for a non-NULL document", ev, text)
                continue
            if kind == "ambiguous":
                cnt("unjudged." + v)
                continue
            gained = after - before
            if kind == "notjson":
                cnt("notjson")
                out["distinct"].add(("notjson", entry, bool(set_err), gained))
                if not set_err or gained != 0:
                    viol("notjson-accepted:entry%d" % entry, "text that is not JSON: set has no error or gained items", ev, text)
                elif not set_msg:
                    viol("notjson-empty-message", "set error without message", ev, text)
                continue
            cnt("json")
            if isinstance(v, dict) and "keys" in v:
                if not isinstance(v["keys"], list):
                    cnt("unjudged.keys-not-array")
                    continue
                elems = v["keys"]
                shape = "set"
            else:
                elems = [v]
                shape = "single"
            if set_err:
                viol("json-set-error:%s" % shape, "well-formed JSON but the set reports an error", ev, text)
                continue
            if gained != len(elems):
                viol("item-count:%s" % shape, "set gained %d items for %d elements" % (gained, len(elems)), ev, text)
                continue
            for e, it in zip(elems, items):
                kid, err, msg_ne, kty, has_pem, has_oct, bits, alg, priv, curve = it[:10]
                if err and len(it) > 10:
                    out.setdefault('msgs', set()).add(it[10])
                ekty = e.get("kty") if isinstance(e, dict) else None
                ekid = e.get("kid") if isinstance(e, dict) else None
                out["distinct"].add((shape, type(e).__name__, ekty if isinstance(ekty, str) and ekty in KTY else type(ekty).__name__,
                                     bool(err)))
                if err:
                    cnt("items_error")
                    if not msg_ne:
                        viol("item-error-empty-message", "item flagged as bad without a message", ev, text, dict(element=repr(e)[:300]))
                    if kid is not None and kid != ekid:
                        viol("item-order", "item kid %r does not match element kid %r (document order broken)" % (kid, ekid), ev, text)
                else:
                    cnt("items_good")
                    usable = kty in (1, 2, 3, 4) and ((kty == 4 and has_oct) or (kty != 4 and has_pem))
                    if not usable:
                        viol("item-neither-error-nor-usable:kty%d" % kty, "item without error is not a usable key (kty %d, pem %d, oct %d)" % (kty, has_pem, has_oct),
                             ev, text, dict(element=repr(e)[:300]))
                    if not isinstance(e, dict) or KTY.get(ekty if isinstance(ekty, str) else None) != kty:
                        viol("item-kty-mismatch", "usable item's kty %d does not match the element's kty %r" % (kty, ekty), ev, text)
                    want = ekid if isinstance(ekid, str) and ekid != "" else None
                    if kid != want:
                        viol("item-order", "item kid %r does not match element kid %r (document order broken)" % (kid, want), ev, text)
            if len(out["samples"]) < 2 and items:
                out["samples"].append(dict(entry=entry, text=text[:200].decode("latin-1"), items=items[:3]))
    return out


JDICT = ["kty", "RSA", "EC", "OKP", "oct", "crv", "P-256", "P-384", "P-521", "secp256k1", "Ed25519", "Ed448", "keys", "alg", "use", "sig",
         "enc", "key_ops", "sign", "verify", "kid", "\"n\":\"", "\"e\":\"AQAB\"", "\"d\":\"", "\"x\":\"", "\"y\":\"", "\"k\":\"", "dp", "dq", "qi",
         "PS256", "RS256", "ES256", "EdDSA", "HS256", "{\"keys\":[", "]}", "null", "true", "1.5", "\\u0000"]


def run(tier, seed, replay):
    rep = vf.Report("C07", tier, seed)
    rep.rule = ("exhaustive single-fault matrix (every key template x 17 members x 16 substitutes), sampled fault pairs, key sets mixing "
                "good/bad elements with 'keys' of every JSON type, non-JSON text, byte-mutated and truncated JWKs, random bytes; each "
                "through the load/create entry points (string, length-limited, file, FILE*, unreadable path, directory, FILE* positioned mid-file / at EOF); plus libFuzzer with a JWK dictionary. distinct = distinct (document shape, "
                "element type, element kty, item error?) and (notjson, entry point, outcome) tuples")
    rep.assumptions = ["Python json is the reference reader; NaN/Infinity literals, integers beyond int64, float overflow, escaped NUL, lone "
                       "surrogates and nesting deeper than 400 are ambiguous and unjudged; a 'keys' member that is not an array is unjudged",
                       "sanitizers see libjwt code only"]
    rd = vf.run_dir("C07")
    b = vf.driver("d_c07", "asan")
    if replay and (replay.get("witness") or {}).get("text_hex") is not None:
        docs = [(replay["witness"].get("entry", 0), bytes.fromhex(replay["witness"]["text_hex"]))]
    else:
        docs = gen_docs(tier, seed, templates(seed, rd))
    dpath = os.path.join(rd, "docs.txt")
    with open(dpath, "w") as fh:
        for e, t in docs:
            fh.write(("E%d:" % e if e is not None else "") + t.hex() + "\n")
    outs, crashes = vf.run_shards(b, ["--mode", "docs", "--arg1", dpath, "--seed", seed], 1 if replay else vf.NCPU, rd, timeout=3000, stall=40, max_restarts=6)
    for cr in crashes:
        case = cr.get("case") or {}
        i = case.get("idx")
        if i is not None and 0 <= i < len(docs):
            cr["case"]["text_hex"] = docs[i][1][:3000].hex()
            cr["case"]["text"] = docs[i][1][:300].decode("latin-1")
    rep.crash_violations(crashes)
    for r in vf.pmap(judge, [(p,) for p in outs]):
        rep.evaluations += r["n"]
        rep.distinct |= r["distinct"]
        for k, what, wit in r["viol"]:
            rep.violation(k, what, wit)
        for s in r["samples"]:
            rep.sample(s)
        for k, v in r["c"].items():
            rep.count(k, v)
    if replay:
        return rep
    seeds = [b"\x00" + json.dumps(t).encode() for t in templates(seed, rd)[:6]] + [b"\x00{\"keys\":[{\"kty\":\"oct\",\"k\":\"AAAA\"},{\"kty\":\"x\"}]}"]
    c06.fuzz(rep, rd, seed, 5000000 if tier == "thorough" else 150000, vf.NCPU, target="d_c07", dict_words=JDICT, max_len=8192, seeds=seeds)
    rep.evaluations -= rep.counters.get("libfuzzer_executions", 0) * 21   # c06.fuzz counts 10 verifies per input; here it is 1 load
    # import while OpenSSL's own k-th allocation fails (every k): the call must still return without memory error.  What the item looks
    # like then (flagged / same key / no error but no PEM, which the library allows on purpose: "PEM is optional") is counted, not judged:
    # the statement quantifies over inputs, not over faults of the crypto library.  OpenSSL's own leaks on its failure paths are not libjwt's.
    if not replay:
        fb = vf.driver("d_c07f", "asan")
        fouts, fcr = vf.run_shards(fb, ["--seed", seed, "--tier", tier], vf.NCPU, rd, tag="pf", timeout=3000,
                                   env={"ASAN_OPTIONS": vf.SAN_ENV["ASAN_OPTIONS"].replace("detect_leaks=1", "detect_leaks=0")})
        rep.crash_violations(fcr, prefix="provider-fault:")
        for pth in fouts:
            with open(pth, errors="replace") as fh:
                for line in fh:
                    if line.startswith('["J"'):
                        ev = json.loads(line)
                        rep.evaluations += ev[5]
                        rep.count("imports_under_provider_allocation_failure", ev[5])
                        rep.count("provider_fault.item_flagged_with_message", ev[6])
                        rep.count("provider_fault.item_same_as_fault_free", ev[7])
                        if ev[4]:
                            rep.distinct.add(("provider-fault-import", ev[2], ev[3]))
                    elif line.startswith('["I"'):
                        ev = json.loads(line)
                        rep.count("provider_fault.unjudged_" + ("item_without_error_and_without_pem" if ev[11] == 0 else "item_without_error_differs_from_fault_free"))
        vf.need(rep, rep.counters.get("imports_under_provider_allocation_failure", 0) > 5000, "provider fault stage did not run")
    c = rep.counters
    vf.need(rep, c.get("items_good", 0) > 200, "too few usable keys imported (positive control)")
    vf.need(rep, c.get("items_error", 0) > 200, "too few bad items observed")
    vf.need(rep, c.get("notjson", 0) > 100, "too few non-JSON documents")
    for e in range(15):
        vf.need(rep, c.get("entry.%d" % e, 0) > 20, "entry point %d hardly exercised" % e)
    return rep

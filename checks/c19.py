"""C19 — a verification callback can observe the token but not bend the verdict."""
import json
import vf
from monitors import policy_model as pm


def admission(path, keys, hdrs):
    """callback-selected key/alg must not be accepted where setkey (route 0) refuses or rejects the same cell+token"""
    out = dict(n=0, viol=[], cells=0)
    r0 = {}
    others = []
    with open(path, errors="replace") as fh:
        for line in fh:
            if not line.startswith('["V"'):
                continue
            ev = json.loads(line)
            (_, idx, prov, route, cfg, ki, kalg, pub, setkey_rc, eff_alg, eff_key, h, sk, refvalid, rc) = ev[:15]
            k = (prov, cfg, ki, kalg, pub, h, sk)
            if route == 0:
                r0[k] = (setkey_rc, rc)
            elif route in (1, 3):
                # callback sets key+alg / key from setkey(none,key) and alg from the callback: same effective pair as setkey(cfg, key)
                others.append((k, rc, ev))
            elif route == 2 and cfg == 0:
                others.append((k, rc, ev))   # callback sets the key only: same as setkey(none, key)
    return r0, others


def run(tier, seed, replay):
    rep = vf.Report("C19", tier, seed)
    L = 3 if tier == "thorough" else 2
    rep.rule = ("every callback program up to length %d over 33 operations on the handed jwt_t (typed gets with right and wrong types, gets of absent names, JSON gets, jwt_get_alg; delete/replace exp, nbf, iss, sub, aud, all claims, incl. replacements that keep the serialised length; header members crit/typ/kid/cty/jwk/x5c; "
                "delete/replace the alg header, all headers) x 32 claim policies x 29 tokens (passing, failing exactly one check or the "
                "signature; HS256, ES256, unsigned; empty payloads; payloads of 4-70 KiB whose checked claims lie beyond the first 4/64 KiB) x provider is compared with the callback-free twin at a fixed clock; every 7th program "
                "also returns non-zero (positive and negative values) and must fail; a third of the cells verify the same token a second time on the same checker; callback-selected key/alg cells of the policy matrix "
                "are compared with the same cell configured through setkey. distinct = distinct (program, token, outcome) among logged + "
                "matrix cells compared" % L)
    rep.assumptions = ["the callback-free twin is the oracle", "ES256 tokens are run under a quarter of the policies per program (cost)"]
    rd = vf.run_dir("C19")
    b = vf.driver("d_c19", "asan", clock=True)
    outs, crashes = vf.run_shards(b, ["--n", L, "--seed", seed], vf.NCPU, rd, timeout=3400)
    rep.crash_violations(crashes)
    events = []
    tot = [0, 0, 0, 0, 0, 0]
    for ev in vf.read_jsonl([]):
        pass
    for p in outs:
        with open(p, errors="replace") as fh:
            for line in fh:
                if line.startswith('["X"'):
                    events.append(json.loads(line))
                elif line.startswith('["STATS"'):
                    s = json.loads(line)
                    for i in range(min(6, len(s) - 1)):
                        tot[i] += s[1 + i]
    rep.evaluations += tot[0]
    rep.count("pairs_compared", tot[0]); rep.count("baseline_accepts", tot[2]); rep.count("baseline_rejects", tot[3]); rep.count("nonzero_callback_cases", tot[4]); rep.count("second_verifications_on_the_same_checker", tot[5])
    single = set()
    mism = [e for e in events if (e[7] and e[5] == 0) or (not e[7] and (e[5] == 0) != (e[6] == 0))]
    for e in mism:
        if ";" not in e[1] and not e[7]:
            single.add((e[1], e[3].split(":")[1], e[5] == 0))
    for e in events:
        prog, pol, tok, prov, rc, base, ret = e[1:8]
        rep.distinct.add((prog, tok, rc == 0, base == 0, bool(ret)))
    for e in mism:
        prog, pol, tok, prov, rc, base, ret = e[1:8]
        tclass = tok.split(":")[1]
        wit = dict(callback_program=prog, policy_bits=pol, policy=dict(exp=bool(pol & 1), nbf=bool(pol & 2), iss=bool(pol & 4), sub=bool(pol & 8), aud=bool(pol & 16)),
                   token=tok, provider=["openssl", "gnutls"][prov], rc_with_callback=rc, rc_without_callback=base, callback_return=ret)
        if ret:
            rep.violation("nonzero-callback-accepted", "verification succeeded although the callback returned non-zero", wit)
            continue
        direction = "accepts-rejected" if rc == 0 else "rejects-accepted"
        ops = [o.strip() for o in prog.split(";")]
        culprit = next((o for o in ops if (o, tclass, rc == 0) in single), None)
        key = "bend:%s:%s:%s" % (direction, tclass, culprit if culprit else prog)
        rep.violation(key, "a callback that returns 0 and leaves config untouched changed the verdict", wit)
    for e in events[:3]:
        rep.sample(dict(program=e[1], policy=e[2], token=e[3], rc_with_cb=e[5], rc_without=e[6]))
    # admission clause: callback-selected key+alg vs setkey on the same cell
    bp = vf.driver("d_policy", "asan")
    spec = ("prov=0,1;route=0,1,2,3;cfg=0..15;keys=none,oct:64,oct:16,rsa:2048,ec:P-256,ec:P-384,okp:Ed25519;kalg=-1,0,1,4,7,8,10,14,15;pub=0,1;"
            "hdr=0..14,15,16,27;sig=0,1,2,3;op=v")
    pouts, crashes = vf.run_shards(bp, ["--arg1", spec, "--seed", seed], vf.NCPU, rd, tag="adm", timeout=3000)
    rep.crash_violations(crashes, prefix="admission:")
    keys, hdrs = pm.load_meta(pouts)
    cells = 0
    for r0, others in vf.pmap(admission, [(p, keys, hdrs) for p in pouts]):
        for k, rc, ev in others:
            if k not in r0:
                continue
            cells += 1
            setkey_rc, rc0 = r0[k]
            eff_key = ev[10]
            if rc == 0 and eff_key and (setkey_rc != 0 or rc0 != 0):   # a key-less checker (setkey refused, callback set no key) is not a callback-selected key
                rep.violation("callback-selected-key-admitted:%s" % ("setkey-refuses" if setkey_rc else "setkey-rejects-token"),
                              "a key/alg selected by the callback was accepted where the same pair through setkey is refused", pm.describe(ev, keys, hdrs))
    rep.count("admission_cells_compared", cells)
    rep.evaluations += cells
    c = rep.counters
    vf.need(rep, c.get("baseline_accepts", 0) > 1000 and c.get("baseline_rejects", 0) > 1000, "baseline verdicts not diverse")
    vf.need(rep, c.get("nonzero_callback_cases", 0) > 1000, "too few non-zero callback cases")
    vf.need(rep, cells > 10000, "too few admission cells compared")
    rep.exhaustive = True
    rep.extra["callback_program_length"] = L
    return rep

"""C16 — a keyring is an ordered list of keys under every sequence of operations."""
import json
import vf

OPS = ["load good kid=a", "load good kid=a (again)", "load good kid=b", "load bad item", "load mixed set [good c, bad, good a]",
       "load non-JSON", "free(0)", "free(count/2)", "free(last)", "free(count)", "free_bad", "free_all", "error_clear", "free(count+5)", "load 300-key set", "load set mixing good and flagged keys (33..300 flagged)"]
KID = {0: "a", 1: "b", 2: "c"}


def judge(path):
    out = dict(n=0, distinct=set(), viol=[], samples=[], c={})
    c = out["c"]
    items, set_err, hist = [], False, []

    def cnt(k):
        c[k] = c.get(k, 0) + 1

    def viol(key, what, ev):
        cnt("viol")
        if len(out["viol"]) < 50:
            out["viol"].append((key, what, dict(seq=ev[1], ops=[OPS[h[3]] for h in hist[-10:]], failing_step=ev[2], observed=ev[4:],
                                                model=[(i["uid"], i["kid"], i["bad"]) for i in items], model_set_error=set_err)))

    last_bad = None
    with open(path, errors="replace") as fh:
        for line in fh:
            if not line.startswith("["):
                continue
            try:
                ev = json.loads(line)
            except Exception:
                continue
            if ev[0] == "N":
                items, set_err, hist = [], False, []
                last_bad = None
                continue
            if ev[0] == "STATS":
                out["n"] += ev[1]
                continue
            _, seq, step, op, ret, count, err_any, serr, smsg, its, finds, loaded = ev
            hist.append(ev)
            cnt("op." + OPS[op])
            n = len(items)
            exp_ret = 0
            if op <= 4 or op in (14, 15):
                for part in loaded.split(","):
                    f = part.split(":")
                    if f[0] == "x":
                        last_bad = int(f[1])
                    if f[0] == "mix":
                        st, c_, pat = int(f[1]), int(f[2]), int(f[3])
                        for u in range(st, st + c_):
                            if (u - st) % pat == 0:
                                items.append(dict(uid=u, kid="bad-%d" % u, bad=1)); last_bad = u
                            else:
                                items.append(dict(uid=u, kid=None, bad=0))
                    elif f[0] == "bulk":
                        items.extend(dict(uid=u, kid=None, bad=0) for u in range(int(f[1]), int(f[1]) + int(f[2])))
                    elif f[0] == "g":
                        items.append(dict(uid=int(f[2]), kid=f[1], bad=0))
                    else:
                        items.append(dict(uid=int(f[1]), kid="bad-" + f[1], bad=1))
            elif op == 5:
                set_err = True
            elif op in (6, 7, 8, 9, 13):
                idx = {6: 0, 7: n // 2, 8: (n - 1 if n else 0), 9: n, 13: n + 5}[op]
                if idx < n:
                    del items[idx]
                    exp_ret = 1
            elif op == 10:
                exp_ret = sum(i["bad"] for i in items)
                items = [i for i in items if not i["bad"]]
            elif op == 11:
                exp_ret = n
                items = []
            elif op == 12:
                set_err = False
            out["distinct"].add((op, min(n, 6) if n < 200 else 200 if n < 256 else 256 if n < 1024 else 1024, min(sum(i["bad"] for i in items), 3), set_err, exp_ret if exp_ret < 4 else 4))
            if op > 5 and op != 12 and ret != exp_ret:
                viol("return:%s" % OPS[op], "returned %d, list model says %d" % (ret, exp_ret), ev)
            # a flagged item that owns key material (odd ids: non-string alg) may or may not have had its kid parsed: identified by its key bytes
            obs = [(u, (KID.get(k) if k in KID else ("bad-%d" % u if (k == 3 or (k == -1 and e == 1 and u % 2 == 1)) else None)), e) for u, k, e in its]
            mod = [(i["uid"], i["kid"], i["bad"]) for i in items]
            if count != len(items):
                viol("count:%s" % OPS[op], "jwks_item_count %d, model %d" % (count, len(items)), ev)
            if obs != mod:
                viol("order-or-identity:%s" % OPS[op], "items by index differ from the list model", ev)
            if bool(serr) != set_err:
                viol("set-error-flag:%s" % OPS[op], "jwks_error %d, model %s" % (serr, set_err), ev)
            if set_err and not smsg:
                viol("set-error-empty-message", "set error without message", ev)
            if err_any != int(set_err) + sum(i["bad"] for i in items):
                viol("error_any:%s" % OPS[op], "jwks_error_any %d, model %d" % (err_any, int(set_err) + sum(i["bad"] for i in items)), ev)
            def first(kid):
                for i in items:
                    if i["kid"] == kid:
                        return i["uid"]
                return -1
            lastbad = max([i["uid"] for i in items if i["bad"]] + [-1])
            want = [first("a"), first("b"), first("c"), -1, -1]
            if finds[:5] != want:
                viol("find_bykid:%s" % OPS[op], "jwks_find_bykid results %r, model %r" % (finds[:5], want), ev)
            if len(finds) > 6 and any(x != -1 for x in finds[6:]):
                viol("find_bykid-inexact:%s" % OPS[op], "jwks_find_bykid found an item for a kid no item has (spellings of 'c+d/e': %r)" % (finds[6:],), ev)
            # the kid of the most recently loaded flagged item: a flagged item is still an item of the list (even ids: kid certainly parsed)
            if last_bad is not None and last_bad % 2 == 0:
                want6 = last_bad if any(i["uid"] == last_bad for i in items) else -1
                if finds[5] != want6:
                    viol("find_bykid-flagged-item:%s" % OPS[op], "jwks_find_bykid(\"bad-%d\") gave %r, model %r" % (last_bad, finds[5], want6), ev)
            if len(out["samples"]) < 2 and step == 3:
                out["samples"].append(dict(ops=[OPS[h[3]] for h in hist], final_items=its, error_any=err_any))
    return out


def run(tier, seed, replay):
    rep = vf.Report("C16", tier, seed)
    L = 5 if tier == "thorough" else 4
    rep.rule = ("all operation sequences up to length %d over 14 operations (loads of good/duplicate-kid/bad/mixed/non-JSON documents, "
                "free at first/middle/last/out-of-range index, free_bad, free_all, error_clear), random sequences up to length 200 and long keyrings (300-key documents, up to ~3000 items); "
                "after every step count, every item by index (unique id, kid, error), find_bykid for 6 kids, error_any and the set error "
                "are compared with a Python list model; ASan/LSan watch for freed-memory use and leaks. distinct = distinct (op, list "
                "length bucket, bad items bucket, set error, return bucket) tuples" % L)
    rep.assumptions = ["item identity is observed through unique key bytes / kids", "jwks_find_bykid(NULL) is API misuse and not exercised"]
    rd = vf.run_dir("C16")
    b = vf.driver("d_c16", "asan")
    outs, crashes = vf.run_shards(b, ["--mode", "exh", "--n", L, "--seed", seed], vf.NCPU, rd, timeout=3000)
    rep.crash_violations(crashes)
    outs2, crashes2 = vf.run_shards(b, ["--mode", "rand", "--n", 40000 if tier == "thorough" else 1500, "--seed", seed], vf.NCPU, rd, tag="r", timeout=3000)
    rep.crash_violations(crashes2, prefix="rand:")
    outs3, crashes3 = vf.run_shards(b, ["--mode", "big", "--n", 160 if tier == "thorough" else 32, "--seed", seed], vf.NCPU, rd, tag="b", timeout=3000)
    rep.crash_violations(crashes3, prefix="big:")
    for r in vf.pmap(judge, [(p,) for p in outs + outs2 + outs3]):
        rep.evaluations += r["n"]
        rep.distinct |= r["distinct"]
        for k, what, wit in r["viol"]:
            rep.violation(k, what, wit)
        for s in r["samples"]:
            rep.sample(s)
        for k, v in r["c"].items():
            rep.count(k, v)
    for o in OPS:
        vf.need(rep, rep.counters.get("op." + o, 0) > 100, "operation '%s' hardly exercised" % o)
    rep.exhaustive = True
    rep.extra["exhaustive_sequence_length"] = L
    return rep

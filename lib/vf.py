"""Common machinery for the libjwt runtime-verification checks.

Builds sanitizer flavours of /repo's *current working tree* with the
repository's own CMake, compiles C drivers against the resulting libjwt.a,
runs them in parallel shards with crash isolation, matches violations against
known_findings.json, and writes evidence/<ID>.json.

Exit codes of a check: 0 held (KNOWN-FINDING lines allowed), 1 violation,
2 harness failure / inconclusive.
"""
import hashlib, json, os, re, shutil, subprocess, sys, time, fcntl, glob, random

VERIF = os.path.dirname(os.path.dirname(os.path.abspath(__file__)))
REPO = os.environ.get("VERIF_REPO", "/repo")
BUILD_ROOT = os.path.join(VERIF, ".build")
NCPU = os.cpu_count() or 4

GUARD = "LIBJWT_VERIF"

# gcc diagnostics that only fire when optimising (the project's own build does not optimise): a tree the project's flags accept must
# build under the sanitizer flavours too, so these stay warnings instead of -Werror failures
_OPTW = " ".join("-Wno-error=" + w for w in ("format-truncation", "format-overflow", "stringop-overflow", "stringop-truncation", "maybe-uninitialized",
                                              "array-bounds", "restrict", "free-nonheap-object", "use-after-free", "dangling-pointer", "null-dereference",
                                              "return-local-addr", "stringop-overread", "uninitialized", "nonnull", "strict-overflow"))
FLAVOURS = {
    "asan": dict(cc="gcc", cflags="-O1 -g -fno-omit-frame-pointer -fsanitize=address,undefined "
                 "-fno-sanitize-recover=all " + _OPTW + " -D" + GUARD,
                 ldflags="-fsanitize=address,undefined"),
    "tsan": dict(cc="gcc", cflags="-O1 -g -fno-omit-frame-pointer -fsanitize=thread " + _OPTW + " -D" + GUARD,
                 ldflags="-fsanitize=thread"),
    "fuzz": dict(cc="clang", cflags="-O1 -g -fno-omit-frame-pointer "
                 "-fsanitize=fuzzer-no-link,address,undefined -fno-sanitize-recover=all "
                 "-fno-sanitize=object-size,null -Wno-error=format-security -Wno-error=format-nonliteral -D" + GUARD,
                 ldflags="-fsanitize=fuzzer,address,undefined"),   # clang's default -Wformat-security is not in the project's gcc flag set: a tree gcc accepts must build here too
    "ubsan-fast": dict(cc="gcc", cflags="-O2 -g -fsanitize=undefined -fno-sanitize-recover=all " + _OPTW + " -D" + GUARD,
                       ldflags="-fsanitize=undefined"),
    "plain": dict(cc="gcc", cflags="-O1 -g -fno-omit-frame-pointer " + _OPTW + " -D" + GUARD, ldflags=""),
}

LIBS = "-ljansson -lgnutls -lssl -lcrypto -lpthread -ldl"


class HarnessFailure(Exception):
    pass


def log(*a):
    print("[vf]", *a, file=sys.stderr, flush=True)


def tree_hash():
    """Content hash of /repo's working tree (sources only)."""
    h = hashlib.sha256()
    for root, dirs, files in os.walk(REPO):
        dirs[:] = sorted(d for d in dirs if d not in (".git", "_build", "doxygen", "images"))
        for f in sorted(files):
            p = os.path.join(root, f)
            if os.path.islink(p) or not os.path.isfile(p):
                continue
            h.update(os.path.relpath(p, REPO).encode())
            h.update(b"\0")
            try:
                with open(p, "rb") as fh:
                    h.update(hashlib.sha256(fh.read()).digest())
            except OSError:
                pass
    return h.hexdigest()[:16]


_tree_hash_cache = None


def cur_hash():
    global _tree_hash_cache
    if _tree_hash_cache is None:
        _tree_hash_cache = tree_hash()
    return _tree_hash_cache


def _evict(keep_hash):
    """Keep build dirs of at most 12 tree hashes (most recently used; several scratch trees may be in use at once)."""
    try:
        ents = [d for d in os.listdir(BUILD_ROOT) if re.match(r"^[0-9a-f]{16}-", d)]
    except FileNotFoundError:
        return
    byhash = {}
    for d in ents:
        byhash.setdefault(d[:16], []).append(d)
    # housekeeping: markers of dead processes, lock files of builds that are long gone
    now = time.time()
    for m in os.listdir(BUILD_ROOT):
        try:
            if m.startswith(".inuse-"):
                try:
                    os.kill(int(m.rsplit("-", 1)[1]), 0)
                except (OSError, ValueError):
                    os.unlink(os.path.join(BUILD_ROOT, m))
            elif m.startswith(".lock-") and m[6:22] not in byhash and now - os.path.getmtime(os.path.join(BUILD_ROOT, m)) > 3600:
                os.unlink(os.path.join(BUILD_ROOT, m))
        except OSError:
            pass
    if len(byhash) <= 12:
        return
    order = sorted(byhash, key=lambda h: max(os.path.getmtime(os.path.join(BUILD_ROOT, d)) for d in byhash[h]))
    for h in order[:-12]:
        if h == keep_hash or _in_use(h):
            continue
        for d in byhash[h]:
            shutil.rmtree(os.path.join(BUILD_ROOT, d), ignore_errors=True)
        for m in os.listdir(BUILD_ROOT):
            if m.startswith(".inuse-%s-" % h):
                try:
                    os.unlink(os.path.join(BUILD_ROOT, m))
                except OSError:
                    pass


def _in_use(h):
    """True if a live process has announced that it works with builds of tree hash h (marker files .inuse-<hash>-<pid>)."""
    for m in os.listdir(BUILD_ROOT):
        if m.startswith(".inuse-%s-" % h):
            try:
                os.kill(int(m.rsplit("-", 1)[1]), 0)
                return True
            except (OSError, ValueError):
                pass
    return False


def build(flavour):
    """Build /repo's working tree with the given flavour; returns build dir."""
    fl = FLAVOURS[flavour]
    h = cur_hash()
    os.makedirs(BUILD_ROOT, exist_ok=True)
    fh = hashlib.sha256((fl["cc"] + fl["cflags"] + fl["ldflags"]).encode()).hexdigest()[:6]
    bdir = os.path.join(BUILD_ROOT, "%s-%s-%s" % (h, flavour, fh))
    stamp = os.path.join(bdir, ".complete")
    open(os.path.join(BUILD_ROOT, ".inuse-%s-%d" % (h, os.getpid())), "w").close()   # several runs on different trees may go on at once
    lock = open(os.path.join(BUILD_ROOT, ".lock-%s-%s-%s" % (h, flavour, fh)), "w")
    fcntl.flock(lock, fcntl.LOCK_EX)
    try:
        if os.path.exists(stamp):
            os.utime(bdir, None)
            return bdir
        shutil.rmtree(bdir, ignore_errors=True)
        _evict(h)
        t0 = time.time()
        env = dict(os.environ, CC=fl["cc"])
        cmd = ["cmake", "-S", REPO, "-B", bdir, "-G", "Ninja", "-DCMAKE_BUILD_TYPE=None",
               "-DWITH_TESTS=OFF", "-DCMAKE_C_FLAGS=" + fl["cflags"],
               "-DCMAKE_EXE_LINKER_FLAGS=" + fl["ldflags"].replace("fuzzer,", ""),
               "-DCMAKE_SHARED_LINKER_FLAGS=" + fl["ldflags"].replace("fuzzer,", "")]
        r = subprocess.run(cmd, env=env, stdout=subprocess.PIPE, stderr=subprocess.STDOUT, text=True)
        if r.returncode != 0:
            raise HarnessFailure("cmake configure failed for %s:\n%s" % (flavour, r.stdout[-3000:]))
        r = subprocess.run(["cmake", "--build", bdir, "-j", str(NCPU)], env=env,
                           stdout=subprocess.PIPE, stderr=subprocess.STDOUT, text=True)
        if r.returncode != 0:
            raise HarnessFailure("build failed for %s:\n%s" % (flavour, r.stdout[-3000:]))
        if not os.path.exists(os.path.join(bdir, "libjwt.a")):
            raise HarnessFailure("libjwt.a missing after build")
        open(stamp, "w").write("ok")
        log("built %s in %.1fs -> %s" % (flavour, time.time() - t0, bdir))
        return bdir
    finally:
        fcntl.flock(lock, fcntl.LOCK_UN)
        lock.close()


def _src_hash(paths):
    h = hashlib.sha256()
    for p in paths:
        h.update(open(p, "rb").read())
    return h.hexdigest()[:12]


def driver(name, flavour="asan", extra_src=(), extra_flags="", clock=False, link_lib=True):
    """Compile /verif/drivers/<name>.c (+vh.c) against the flavour's libjwt.a."""
    bdir = build(flavour)
    fl = FLAVOURS[flavour]
    ddir = os.path.join(VERIF, "drivers")
    srcs = [os.path.join(ddir, name + ".c"), os.path.join(ddir, "vh.c")]
    if clock:
        srcs.append(os.path.join(ddir, "vh_clock.c"))
    srcs += [os.path.join(ddir, s) for s in extra_src]
    hdrs = [os.path.join(ddir, "vh.h")]
    sh = _src_hash(srcs + hdrs + [__file__]) + hashlib.sha256(extra_flags.encode()).hexdigest()[:4]
    odir = os.path.join(bdir, "drv")
    os.makedirs(odir, exist_ok=True)
    out = os.path.join(odir, "%s-%s" % (name, sh))
    if os.path.exists(out):
        return out
    lock = open(out + ".lock", "w")
    fcntl.flock(lock, fcntl.LOCK_EX)
    try:
        if os.path.exists(out):
            return out
        cflags = fl["cflags"].replace("-fsanitize=fuzzer-no-link,", "-fsanitize=")
        cmd = [fl["cc"]] + cflags.split() + ["-D_GNU_SOURCE", "-DJWT_STATIC_DEFINE", '-DVH_DATA_DIR="%s"' % os.path.join(VERIF, "data"), "-Wall", "-Wno-unused-function",
              "-I" + os.path.join(REPO, "include"), "-I" + bdir, "-I" + ddir] + extra_flags.split() + srcs
        if link_lib:
            cmd += [os.path.join(bdir, "libjwt.a")]
        ld = fl["ldflags"]
        if "fuzzer" in ld and "-DVH_FUZZ_MAIN" not in extra_flags:
            ld = ld.replace("fuzzer,", "")
        cmd += ld.split() + LIBS.split() + ["-o", out + ".tmp"]
        r = subprocess.run(cmd, stdout=subprocess.PIPE, stderr=subprocess.STDOUT, text=True)
        if r.returncode != 0:
            raise HarnessFailure("driver %s failed to compile:\n%s" % (name, r.stdout[-4000:]))
        os.rename(out + ".tmp", out)
        return out
    finally:
        fcntl.flock(lock, fcntl.LOCK_UN)
        lock.close()


SAN_ENV = {
    "ASAN_OPTIONS": "abort_on_error=0:exitcode=99:detect_leaks=1:allocator_may_return_null=1:"
                    "detect_stack_use_after_return=0:handle_abort=1:malloc_context_size=12:quarantine_size_mb=8",
    "UBSAN_OPTIONS": "print_stacktrace=1:halt_on_error=1:exitcode=99",
    "LSAN_OPTIONS": "exitcode=98",
    "TSAN_OPTIONS": "halt_on_error=0:exitcode=0:second_deadlock_stack=1",
}


# VERIF_SCRATCH=<tag>: a run against a scratch tree (seeded-change tooling) keeps its shard logs, evidence and replay files apart,
# so that several such runs can go on at once without touching evidence/ or replay/ of the registered checks
SCRATCH = os.environ.get("VERIF_SCRATCH")


def _run_path(pid):
    return os.path.join(BUILD_ROOT, "run", pid + ("-" + SCRATCH if SCRATCH else ""))


def _out_dir(kind):
    return os.path.join(BUILD_ROOT, "scratch", SCRATCH, kind) if SCRATCH else os.path.join(VERIF, kind)


def run_dir(pid):
    d = _run_path(pid)
    shutil.rmtree(d, ignore_errors=True)
    os.makedirs(d, exist_ok=True)
    return d


SAN_RE = re.compile(r"(ERROR: HarnessAllocator: [\w-]+|ERROR: AddressSanitizer: attempting [\w-]+|ERROR: AddressSanitizer: [\w-]+|ERROR: LeakSanitizer: [\w ]+|runtime error: [^\n]+|"
                    r"WARNING: ThreadSanitizer: [\w ]+|AddressSanitizer: [\w-]+ on|DEADLYSIGNAL)")


def san_key(stderr_text):
    """Build a stable key for a sanitizer report: kind + first frame inside the repo."""
    m = SAN_RE.search(stderr_text)
    if not m:
        return None
    kind = m.group(1)
    kind = re.sub(r"^ERROR: ", "", kind)
    kind = re.sub(r"0x[0-9a-f]+", "ADDR", kind)
    kind = re.sub(r"\s+", "_", kind.strip())
    if kind.startswith("runtime_error"):
        # strip values
        kind = re.sub(r"\d+", "N", kind)[:80]
    frame = None
    for fm in re.finditer(r"#\d+ 0x[0-9a-f]+ in (\S+) (\S+)", stderr_text):
        fn, loc = fm.group(1), fm.group(2)
        if REPO + "/" in loc or "/libjwt/" in loc or "/tools/" in loc:
            frame = fn
            break
    return "san:%s@%s" % (kind, frame or "?")


VG_RE = re.compile(r"==\d+== (Invalid (?:read|write) of size \d+|Conditional jump or move depends on uninitialised value|"
                   r"Use of uninitialised value of size \d+|Syscall param \S+ (?:points to|contains) uninitialised|Invalid free|Mismatched free)")


def valgrind_key(err):
    m = VG_RE.search(err)
    if not m:
        return None
    kind = re.sub(r"\s+", "_", m.group(1))
    frame = None
    for fm in re.finditer(r"(?:at|by) 0x[0-9A-F]+: (\S+) \((\S+?):\d+\)", err[m.start():m.start() + 4000]):
        fn, src = fm.group(1), fm.group(2)
        if src.endswith(".c") and not src.startswith(("vg_", "d_", "vh")) and os.path.exists(os.path.join(REPO, "libjwt", src)) or \
                os.path.exists(os.path.join(REPO, "libjwt", "openssl", src)) or os.path.exists(os.path.join(REPO, "libjwt", "gnutls", src)):
            frame = fn
            break
    return "memcheck:%s@%s" % (kind, frame or "?")


def _read_case(path):
    try:
        raw = open(path, "rb").read().split(b"\0", 1)[0].decode("latin-1")
        idx_s, _, body = raw.partition("\n")
        return json.loads('{"idx":%d%s%s}' % (int(idx_s), "," if body else "", body))
    except Exception:
        return None


def run_shards(binary, args, nshards, rundir, env=None, timeout=1800, tag="s", stdin_data=None,
               max_restarts=20, stall=240):
    """Run `binary args --shard i --nshards n` for each shard in parallel.

    Each shard's stdout goes to <rundir>/<tag><i>.out (JSONL).  If a shard dies
    (sanitizer abort / signal), the in-flight case printed by the death
    callback (@@CRASH {json}) is collected and the shard is restarted after
    that case.  Returns (out_paths, crashes) where crashes is a list of dicts
    {case, rc, key, stderr}.
    """
    e = dict(os.environ)
    e.update(SAN_ENV)
    if env:
        e.update(env)
    procs = {}
    outs = []
    crashes = []
    restarts = {}
    progress = {}
    drvname = os.path.basename(binary if binary != "valgrind" else [a for a in args if "/drv/" in str(a)][0]).split("-")[0]

    def start(i, start_at=0, attempt=0):
        op = os.path.join(rundir, "%s%d.%d.out" % (tag, i, attempt))
        ep = os.path.join(rundir, "%s%d.%d.err" % (tag, i, attempt))
        outs.append(op)
        cmd = [binary] + [str(a) for a in args] + ["--shard", str(i), "--nshards", str(nshards),
                                                   "--start", str(start_at)]
        pe = dict(e, VH_CASE_FILE=os.path.join(rundir, "%s%d.%d.case" % (tag, i, attempt)))
        p = subprocess.Popen(cmd, stdout=open(op, "w"), stderr=open(ep, "w"), env=pe,
                             stdin=subprocess.DEVNULL)
        procs[p.pid] = (p, i, attempt, ep, time.time())
        progress[p.pid] = [None, time.time()]

    try:
        return _run_shards_loop(procs, outs, crashes, restarts, progress, start, nshards, timeout, stall, max_restarts, drvname)
    finally:
        # whatever ends the loop (harness failure, exception while starting a shard, interrupt): no driver may outlive its run
        for pid in list(procs):
            try:
                procs[pid][0].kill()
                procs[pid][0].wait()
            except Exception:
                pass


def _run_shards_loop(procs, outs, crashes, restarts, progress, start, nshards, timeout, stall, max_restarts, drvname):
    for i in range(nshards):
        start(i)
    deadline = time.time() + timeout
    t_loop0 = time.time()
    while procs:
        time.sleep(0.05 if time.time() - t_loop0 < 20 else 0.5)
        for pid in list(procs):
            p, i, attempt, ep, t0 = procs[pid]
            rc = p.poll()
            if rc is None:
                now = time.time()
                cur = _read_case(ep[:-4] + ".case")
                pr = progress[pid]
                if cur != pr[0]:
                    pr[0], pr[1] = cur, now
                stalled = (now - pr[1]) > stall
                if now > deadline or stalled:
                    p.kill()
                    p.wait()
                    del procs[pid]
                    crashes.append(dict(case=cur, rc=-9, key="hang:%s" % drvname,
                                        stderr="no progress for %ds on the case in flight" % stall if stalled else "overall watchdog timeout",
                                        hang=True, shard=i))
                    n = restarts.get(i, 0)
                    if stalled and now < deadline and cur is not None and "idx" in cur and n < max_restarts:
                        restarts[i] = n + 1
                        start(i, int(cur["idx"]) + 1, attempt + 1)
                continue
            del procs[pid]
            if rc == 0:
                continue
            err = open(ep, errors="replace").read()
            m = re.search(r"@@CRASH (\{.*\})", err)
            case = None
            if m:
                try:
                    case = json.loads(m.group(1))
                except Exception:
                    case = {"raw": m.group(1)}
            if case is None:
                # the process died without running our death callback: read the case in flight from the mapped file
                case = _read_case(ep[:-4] + ".case")
            if rc == 2 and "@@HARNESS" in err:
                raise HarnessFailure("driver reported harness failure: " + err[-2000:])
            key = san_key(err) or valgrind_key(err) or ("exit:%d" % rc)
            crashes.append(dict(case=case, rc=rc, key=key, stderr=err[-6000:], shard=i))
            n = restarts.get(i, 0)
            if case is not None and "idx" in case and n < max_restarts:
                restarts[i] = n + 1
                start(i, int(case["idx"]) + 1, attempt + 1)
    return outs, crashes


def read_jsonl(paths):
    for p in paths:
        with open(p, errors="replace") as fh:
            for line in fh:
                if not line or line[0] not in "{[":
                    continue
                try:
                    yield json.loads(line)
                except Exception:
                    # a truncated last line from a crashed shard
                    continue


# --------------------------------------------------------------------------
# known findings, reporting, evidence

def load_known():
    p = os.path.join(VERIF, "known_findings.json")
    try:
        return json.load(open(p))["findings"]
    except FileNotFoundError:
        return []


class Report:
    def __init__(self, pid, tier, seed, level="exploration"):
        self.pid, self.tier, self.seed, self.level = pid, tier, seed, level
        self.t0 = time.time()
        self.evaluations = 0
        self.distinct = set()
        self.distinct_n = None   # set when distinctness holds by construction (enumerations)
        self.samples = []
        self.violations = {}   # key -> dict(what, witness, count)
        self.counters = {}
        self.assumptions = []
        self.rule = ""
        self.extra = {}
        self.exhaustive = None
        self.inconclusive = []

    def count(self, k, n=1):
        self.counters[k] = self.counters.get(k, 0) + n

    def sample(self, s, limit=8):
        if len(self.samples) < limit:
            self.samples.append(s)

    def violation(self, key, what, witness=None):
        v = self.violations.get(key)
        if v is None:
            self.violations[key] = dict(what=what, witness=witness, count=1)
        else:
            v["count"] += 1

    def crash_violations(self, crashes, prefix=""):
        for c in crashes:
            self.violation(prefix + c["key"], "driver died: %s" % c["key"],
                           dict(case=c["case"], rc=c["rc"], stderr=c["stderr"][-3000:]))

    def finish(self):
        wall = time.time() - self.t0
        known = [k for k in load_known() if k.get("property") == self.pid]
        open_keys = {k["key"]: k for k in known if k.get("status") == "open"}
        new = []
        kf_lines = []
        for key, v in sorted(self.violations.items()):
            if key in open_keys:
                kf_lines.append("KNOWN-FINDING: property=%s %s [key=%s, seen %d times]" %
                                (self.pid, open_keys[key].get("what", v["what"]), key, v["count"]))
            else:
                new.append((key, v))
        rdir = os.path.join(_out_dir("replay"), self.pid)
        shutil.rmtree(rdir, ignore_errors=True)     # witnesses of earlier runs are stale
        replay_paths = []
        if new:
            os.makedirs(rdir, exist_ok=True)
            for n, (key, v) in enumerate(new):
                safe = re.sub(r"[^A-Za-z0-9_.-]+", "_", key)[:80]
                p = os.path.join(rdir, "%s-%s.json" % (safe, self.seed))
                json.dump(dict(property=self.pid, key=key, what=v["what"], count=v["count"], seed=self.seed,
                               tier=self.tier, witness=v["witness"]), open(p, "w"), indent=1, default=str)
                replay_paths.append((key, v, p))
        ndist = self.distinct_n if self.distinct_n is not None else len(self.distinct)
        cov = dict(evaluations=int(self.evaluations), distinct_nontrivial=int(ndist),
                   rule=self.rule, samples=self.samples[:8], counters=self.counters)
        if self.exhaustive is not None:
            cov["exhaustive"] = bool(self.exhaustive)
        cov.update(self.extra)
        cov["known_findings_seen"] = sorted(k for k in self.violations if k in open_keys)
        cov["new_violation_keys"] = [k for k, _ in new]
        cov["inconclusive"] = self.inconclusive
        ev = dict(property_id=self.pid, tier=self.tier, seed=int(self.seed), level=self.level,
                  coverage=cov, assumptions=self.assumptions, wall_s=round(wall, 2),
                  violations=len(new), tree_hash=cur_hash())
        os.makedirs(_out_dir("evidence"), exist_ok=True)
        json.dump(ev, open(os.path.join(_out_dir("evidence"), self.pid + ".json"), "w"), indent=1, default=str)
        for l in kf_lines:
            print(l)
        print("%s tier=%s seed=%s evaluations=%d distinct=%d wall=%.1fs counters=%s" % (
            self.pid, self.tier, self.seed, self.evaluations, ndist, wall,
            json.dumps(self.counters, sort_keys=True)[:1500]))
        # shard logs can be gigabytes in the thorough tier: keep them only when something has to be looked at
        if not new and not self.inconclusive and not os.environ.get("VERIF_KEEP_RUN"):
            shutil.rmtree(_run_path(self.pid), ignore_errors=True)
        if new:
            for key, v, p in replay_paths:
                print("VIOLATION property=%s replay=%s  # %s: %s (x%d)" % (self.pid, p, key, v["what"], v["count"]))
            return 1
        if self.inconclusive:
            for i in self.inconclusive:
                print("INCONCLUSIVE property=%s %s" % (self.pid, i))
            return 2
        return 0


def need(report, cond, what):
    """Positive-control / minimum-observation requirement."""
    if not cond:
        report.inconclusive.append(what)


def tier_pick(tier, quick, thorough):
    return quick if tier == "quick" else thorough


def pmap(func, arglist, procs=None):
    """Run func(*args) for each args tuple in a process pool (monitors over shard logs)."""
    import multiprocessing as mp
    if len(arglist) <= 1:
        return [func(*a) for a in arglist]
    with mp.Pool(min(procs or NCPU, len(arglist))) as pool:
        return pool.starmap(func, arglist)

/* Policy matrix driver (C02, C03, C09): enumerates checker / builder configuration cells
 * x token shapes and logs one compact JSON array per library call.  The judgement is done
 * offline by monitors/policy_model.py.
 *
 * --arg1 "prov=0,1;route=0,1,2,3;cfg=0,..;keys=none,oct:64,rsa:2048,..;kalg=-1,0,..,15;pub=0,1;hdr=..;sig=..;op=v,g"
 */
#include "vh.h"

#define MAXL 260
#define NSIG 10
typedef struct { int n; int v[MAXL]; } ilist_t;
typedef struct { int n; char v[MAXL][24]; } slist_t;

static ilist_t L_prov, L_route, L_cfg, L_kalg, L_pub, L_hdr, L_sig;
static slist_t L_keys;
static int op_v, op_g, pinonly;

static void parse_ilist(ilist_t *l, const char *s)
{
	l->n = 0;
	while (*s && *s != ';') {
		char *e;
		long a = strtol(s, &e, 10), b = a;
		if (e == s) break;
		if (*e == '.' && e[1] == '.') { b = strtol(e + 2, &e, 10); }
		for (long x = a; x <= b; x++) { if (l->n >= MAXL) vh_harness_fail("list in the matrix spec has more than %d entries", MAXL); l->v[l->n++] = (int)x; }
		s = (*e == ',') ? e + 1 : e;
	}
}
static void parse_slist(slist_t *l, const char *s)
{
	l->n = 0;
	while (*s && *s != ';') {
		size_t n = strcspn(s, ",;");
		if (l->n >= MAXL) vh_harness_fail("list in the matrix spec has more than %d entries", MAXL);
		snprintf(l->v[l->n], sizeof(l->v[0]), "%.*s", (int)n, s); l->n++;
		s += n;
		if (*s == ',') s++;
	}
}
static void parse_spec(const char *spec)
{
	const char *p = spec;
	while (p && *p) {
		if (!strncmp(p, "prov=", 5)) parse_ilist(&L_prov, p + 5);
		else if (!strncmp(p, "route=", 6)) parse_ilist(&L_route, p + 6);
		else if (!strncmp(p, "cfg=", 4)) parse_ilist(&L_cfg, p + 4);
		else if (!strncmp(p, "kalg=", 5)) parse_ilist(&L_kalg, p + 5);
		else if (!strncmp(p, "pub=", 4)) parse_ilist(&L_pub, p + 4);
		else if (!strncmp(p, "hdr=", 4)) parse_ilist(&L_hdr, p + 4);
		else if (!strncmp(p, "sig=", 4)) parse_ilist(&L_sig, p + 4);
		else if (!strncmp(p, "keys=", 5)) parse_slist(&L_keys, p + 5);
		else if (!strncmp(p, "op=", 3)) { op_v = strchr(p + 3, 'v') && strchr(p + 3, 'v') < p + 3 + strcspn(p + 3, ";"); op_g = strchr(p + 3, 'g') && strchr(p + 3, 'g') < p + 3 + strcspn(p + 3, ";"); }
		else if (!strncmp(p, "pinonly=", 8)) pinonly = atoi(p + 8);
		else vh_harness_fail("bad spec at %s", p);
		p = strchr(p, ';');
		if (p) p++;
	}
}

/* ---- header variants ---------------------------------------------------- */
typedef struct { const char *json; int intended; } hvar_t;
#define NHDR 64
static hvar_t HV[NHDR];
static char hv_store[15][16];
static void init_hdr(void)
{
	for (int a = 0; a < 15; a++) {
		snprintf(hv_store[a], sizeof(hv_store[a]), "\"%s\"", vh_alg_name(a));
		HV[a].json = hv_store[a]; HV[a].intended = a;
	}
	HV[15] = (hvar_t){ "\"hs256\"", JWT_ALG_HS256 };
	HV[16] = (hvar_t){ "\"None\"", JWT_ALG_NONE };
	HV[17] = (hvar_t){ "\"NONE\"", JWT_ALG_NONE };
	HV[18] = (hvar_t){ "\"nOne\"", JWT_ALG_NONE };
	HV[19] = (hvar_t){ "\"rs256\"", JWT_ALG_RS256 };
	HV[20] = (hvar_t){ "\"Es256\"", JWT_ALG_ES256 };
	HV[21] = (hvar_t){ "\"eddsa\"", JWT_ALG_EDDSA };
	HV[22] = (hvar_t){ "\"EDDSA\"", JWT_ALG_EDDSA };
	HV[23] = (hvar_t){ "\"XS256\"", JWT_ALG_HS256 };
	HV[24] = (hvar_t){ "\"\"", JWT_ALG_NONE };
	HV[25] = (hvar_t){ "\"HS256 \"", JWT_ALG_HS256 };
	HV[26] = (hvar_t){ "\"HS2560\"", JWT_ALG_HS256 };
	HV[27] = (hvar_t){ NULL, JWT_ALG_NONE };		/* alg member missing */
	HV[28] = (hvar_t){ "256", JWT_ALG_HS256 };
	HV[29] = (hvar_t){ "null", JWT_ALG_NONE };
	HV[30] = (hvar_t){ "[\"HS256\"]", JWT_ALG_HS256 };
	HV[31] = (hvar_t){ "{\"a\":\"HS256\"}", JWT_ALG_HS256 };
	HV[32] = (hvar_t){ "true", JWT_ALG_NONE };
	HV[33] = (hvar_t){ "\"none \"", JWT_ALG_NONE };
	HV[34] = (hvar_t){ "\"PS256\\u0000\"", JWT_ALG_PS256 };
	/* spellings a lenient number / string parser would take for a real name */
	HV[35] = (hvar_t){ "\"RS 256\"", JWT_ALG_RS256 };
	HV[36] = (hvar_t){ "\"RS+256\"", JWT_ALG_RS256 };
	HV[37] = (hvar_t){ "\"RS0256\"", JWT_ALG_RS256 };
	HV[38] = (hvar_t){ "\"HS 0256\"", JWT_ALG_HS256 };
	HV[39] = (hvar_t){ "\"ES\\t256\"", JWT_ALG_ES256 };
	HV[40] = (hvar_t){ "\" HS256\"", JWT_ALG_HS256 };
	HV[41] = (hvar_t){ "\"HS256\\n\"", JWT_ALG_HS256 };
	HV[42] = (hvar_t){ "\"PS+0384\"", JWT_ALG_PS384 };
	HV[43] = (hvar_t){ "\"EdDSA \"", JWT_ALG_EDDSA };
	HV[44] = (hvar_t){ "\"HS256.0\"", JWT_ALG_HS256 };
	/* an escaped NUL inside the name: read as a C string the name ends there */
	HV[45] = (hvar_t){ "\"none\\u0000\"", JWT_ALG_NONE };
	HV[46] = (hvar_t){ "\"none\\u0000HS256\"", JWT_ALG_NONE };
	HV[47] = (hvar_t){ "\"HS256\\u0000none\"", JWT_ALG_HS256 };
	HV[48] = (hvar_t){ "\"RS256\\u0000\"", JWT_ALG_RS256 };
	HV[49] = (hvar_t){ "\"ES256\\u0000K\"", JWT_ALG_ES256 };
	/* names that follow the pattern of the registered ones but are not registered (a look-up that computes instead of comparing
	 * must not map them to anything, least of all to 'none') */
	HV[50] = (hvar_t){ "\"HS128\"", JWT_ALG_HS256 };
	HV[51] = (hvar_t){ "\"HS0\"", JWT_ALG_HS256 };
	HV[52] = (hvar_t){ "\"HS640\"", JWT_ALG_HS512 };
	HV[53] = (hvar_t){ "\"RS128\"", JWT_ALG_RS256 };
	HV[54] = (hvar_t){ "\"ES128\"", JWT_ALG_ES256 };
	HV[55] = (hvar_t){ "\"PS128\"", JWT_ALG_PS256 };
	HV[56] = (hvar_t){ "\"ES512K\"", JWT_ALG_ES512 };
	HV[57] = (hvar_t){ "\"ES128K\"", JWT_ALG_ES256K };
	HV[58] = (hvar_t){ "\"HS000\"", JWT_ALG_HS256 };
	HV[59] = (hvar_t){ "\"EdDSA256\"", JWT_ALG_EDDSA };
	HV[60] = (hvar_t){ "\"none0\"", JWT_ALG_NONE };
	HV[61] = (hvar_t){ "\"HS-128\"", JWT_ALG_HS256 };
	HV[62] = (hvar_t){ "\"HS768\"", JWT_ALG_HS512 };
	HV[63] = (hvar_t){ "\"RS640\"", JWT_ALG_RS512 };
}

/* ---- keys ------------------------------------------------------------------ */
#define NKALG 17	/* index 0: absent (-1); 1..15: alg 0..14; 16: unknown string (15) */
typedef struct {
	vh_key_t k;
	int present;
	/* loaded items per provider? items are provider independent after import (openssl parser for both) but
	 * we load under the provider in force to mirror real use */
	jwk_set_t *sets[VH_NPROV];
	const jwk_item_t *items[VH_NPROV][NKALG][2];
	char *tok[NHDR][NSIG];
	int tok_made[NHDR][NSIG];
	int tok_refvalid[NHDR][NSIG];
	char *pubpem;
} zkey_t;
static zkey_t Z[MAXL], nokey;
static vh_rng_t rng;

static int kalg_slot(int kalg) { return kalg < 0 ? 0 : kalg + 1; }
static const char *kalg_text(int kalg) { return kalg < 0 ? NULL : kalg == 15 ? "XX999" : vh_alg_name(kalg); }

static const jwk_item_t *get_item(int prov, int ki, int kalg, int pub)
{
	zkey_t *z = &Z[ki];
	const jwk_item_t **slot = &z->items[prov][kalg_slot(kalg)][pub];
	if (!z->present)
		return NULL;
	if (!*slot) {
		/* half of the slots carry a kid (the tokens' headers name the same kid, another one, an empty or a non-string one) */
		vh_load_kid = ((ki + kalg + 16 + pub) & 1) ? "zoo-kid" : NULL;
		*slot = vh_key_load(&z->k, !pub, kalg_text(kalg), &z->sets[prov]);
		vh_load_kid = NULL;
		if (!*slot)
			vh_harness_fail("cannot load key %s", z->k.name);
	}
	return *slot;
}

static size_t garbage_len(const zkey_t *z, int alg)
{
	switch (vh_alg_family(alg)) {
	case VH_FAM_HS: return (size_t)EVP_MD_get_size(vh_alg_md(alg));
	case VH_FAM_RS: case VH_FAM_PS: return z && z->k.kind <= VH_K_RSAPSS && z->k.kind >= VH_K_RSA ? (size_t)(z->k.bits + 7) / 8 : 256;
	case VH_FAM_ES: return 2 * (size_t)((vh_alg_ecbits(alg) + 7) / 8);
	case VH_FAM_ED: return z && z->k.kind == VH_K_OKP && z->k.bits == 456 ? 114 : 64;
	default: return 32;
	}
}

/* token for (key, header variant, signature kind); NULL if that kind cannot be made */
static const char *get_token(int ki, int h, int sk, int *refvalid)
{
	zkey_t *z = ki >= 0 ? &Z[ki] : &nokey;
	char hdr[320], *h64, *p64, *msg, *tok = NULL;
	/* further header members that name or carry a key: they must not change which key or algorithm judges the token */
	static const char *DECO[8] = { "", ",\"kid\":\"other-kid\"", ",\"kid\":\"\"", ",\"kid\":\"zoo-kid\"", ",\"kid\":7", ",\"kid\":null,\"jwk\":{\"kty\":\"oct\",\"k\":\"\"}",
		",\"jku\":\"https://keys.example/\",\"x5c\":[],\"x5t\":\"AAAA\"", ",\"kid\":\"zoo-kid \",\"cty\":\"JWT\"" };
	const char *deco = DECO[(unsigned)((ki + 1) * 5 + h * 3 + sk) % 8];
	static const char *payload = "{\"sub\":\"matrix\"}";
	int alg = HV[h].intended;
	unsigned char sig[1200];
	size_t sl = 0;
	int have = 1;

	if (z->tok_made[h][sk]) { *refvalid = z->tok_refvalid[h][sk]; return z->tok[h][sk]; }
	z->tok_made[h][sk] = 1;
	if (HV[h].json) snprintf(hdr, sizeof(hdr), "{\"alg\":%s,\"typ\":\"JWT\"%s}", HV[h].json, deco);
	else snprintf(hdr, sizeof(hdr), "{\"typ\":\"JWT\"%s}", deco);
	h64 = vh_b64u_enc_dup(hdr, strlen(hdr));
	p64 = vh_b64u_enc_dup(payload, strlen(payload));
	msg = malloc(strlen(h64) + strlen(p64) + 2);
	sprintf(msg, "%s.%s", h64, p64);
	switch (sk) {
	case 0: sl = 0; break;
	case 1: sl = garbage_len(ki >= 0 ? z : NULL, alg); vh_rand_bytes(&rng, sig, sl); break;
	case 2: {	/* valid under the configured key for the intended alg */
		unsigned char *s;
		if (ki < 0 || !z->present || alg == JWT_ALG_NONE) { have = 0; break; }
		s = vh_ref_sign(&z->k, alg, msg, strlen(msg), &sl);
		if (!s || !vh_ref_verify(&z->k, alg, msg, strlen(msg), s, sl)) { free(s); have = 0; break; }
		memcpy(sig, s, sl); free(s);
		break;
	}
	case 3:	/* HMAC with the empty key */
		if (vh_alg_family(alg) != VH_FAM_HS) { have = 0; break; }
		vh_ref_hmac(alg, "", 0, msg, strlen(msg), sig, &sl);
		break;
	case 4:	/* HMAC keyed with the public PEM text (classic RS->HS confusion) */
		if (vh_alg_family(alg) != VH_FAM_HS || ki < 0 || !z->pubpem) { have = 0; break; }
		vh_ref_hmac(alg, z->pubpem, strlen(z->pubpem), msg, strlen(msg), sig, &sl);
		break;
	case 5: /* HMAC keyed with a 64-byte all-zero key */
		if (vh_alg_family(alg) != VH_FAM_HS) { have = 0; break; }
		memset(sig, 0, 64);
		{ unsigned char zk[64] = { 0 }; vh_ref_hmac(alg, zk, 64, msg, strlen(msg), sig, &sl); }
		break;
	case 6: case 7: case 9: sl = 0; break;	/* shapes, see below */
	case 8: {	/* valid signature followed by a trailing dot */
		unsigned char *s;
		if (ki < 0 || !z->present || alg == JWT_ALG_NONE) { have = 0; break; }
		s = vh_ref_sign(&z->k, alg, msg, strlen(msg), &sl);
		if (!s) { have = 0; break; }
		memcpy(sig, s, sl); free(s);
		break;
	}
	default: have = 0;
	}
	if (have) {
		char *s64 = vh_b64u_enc_dup(sig, sl);
		tok = malloc(strlen(msg) + strlen(s64) + 8);
		if (sk == 6) sprintf(tok, "%s", msg);			/* only two segments */
		else if (sk == 7) sprintf(tok, "%s..x", msg);		/* empty third segment followed by a fourth */
		else if (sk == 8) sprintf(tok, "%s.%s.", msg, s64);
		else if (sk == 9) sprintf(tok, "%s.=", msg);		/* padding-only third segment */
		else sprintf(tok, "%s.%s", msg, s64);
		free(s64);
		z->tok_refvalid[h][sk] = (ki >= 0 && z->present) ? vh_ref_token_valid(&z->k, tok, NULL) : 0;
	}
	free(h64); free(p64); free(msg);
	z->tok[h][sk] = tok;
	*refvalid = z->tok_refvalid[h][sk];
	return tok;
}

/* ---- callbacks ------------------------------------------------------------- */
typedef struct { const jwk_item_t *key; int alg; int mode; int calls; int seen_alg; int seen_key; int warm_alg; long total; } cbctx_t;
static cbctx_t *g_cx;	/* callbacks registered with a NULL context use this */
static int the_cb(jwt_t *jwt, jwt_config_t *config)
{
	cbctx_t *c = config->ctx ? config->ctx : g_cx;
	(void)jwt;
	c->calls++;
	c->seen_alg = (int)config->alg;
	c->seen_key = config->key != NULL;
	switch (c->mode) {
	case 1: config->key = c->key; config->alg = (jwt_alg_t)c->alg; break;
	case 2: config->key = c->key; break;
	case 3: config->alg = (jwt_alg_t)c->alg; break;
	case 4: config->key = c->key; config->alg = (jwt_alg_t)(c->total++ == 0 ? c->warm_alg : c->alg); break;	/* same key, another alg from the second call on */
	case 5: if (c->total++ == 0) { config->key = c->key; config->alg = (jwt_alg_t)c->warm_alg; } break;	/* another key+alg for the first token only, then hands off */
	default: break;
	}
	return 0;
}

static void put_msg(const char *m)
{
	char b[64];
	snprintf(b, sizeof(b), "%.48s", m ? m : "");
	vh_put_jstr(stdout, b);
}

/* decode a generated token: header alg index (-1 unknown, -2 missing/non-string), typ present, third empty */
static void inspect_token(const char *tok, const vh_key_t *k, int *halg, int *third_empty, int *refvalid, int *shape_ok)
{
	const char *d1 = strchr(tok, '.'), *d2 = d1 ? strchr(d1 + 1, '.') : NULL;
	*halg = -2; *third_empty = 0; *refvalid = 0; *shape_ok = 0;
	if (!d1 || !d2 || strchr(d2 + 1, '.'))
		return;
	*shape_ok = 1;
	*third_empty = d2[1] == 0;
	if (k)
		*refvalid = vh_ref_token_valid(k, tok, halg);
	else {
		/* decode header to find alg */
		vh_key_t dummy; memset(&dummy, 0, sizeof(dummy)); dummy.kind = VH_K_OCT; dummy.oct = (unsigned char *)"";
		vh_ref_token_valid(&dummy, tok, halg);
	}
}

static int natural_alg(const vh_key_t *k)
{
	switch (k->kind) {
	case VH_K_OCT: return k->bits >= 512 ? JWT_ALG_HS512 : k->bits >= 384 ? JWT_ALG_HS384 : JWT_ALG_HS256;
	case VH_K_RSA: return JWT_ALG_RS256;
	case VH_K_RSAPSS: return JWT_ALG_PS256;
	case VH_K_EC: return !strcmp(k->crv, "secp256k1") ? JWT_ALG_ES256K : k->bits == 256 ? JWT_ALG_ES256 : k->bits == 384 ? JWT_ALG_ES384 : k->bits == 521 ? JWT_ALG_ES512 : JWT_ALG_ES256;
	default: return JWT_ALG_EDDSA;
	}
}

/* ---- setkey histories (routes 5..7) ---------------------------------------------
 * 5: the cell's setkey, then a refused setkey (alg without key)
 * 6: the cell's setkey, then a refused setkey (alg mismatch / key without alg and alg none)
 * 7: an admitted setkey with another key (HS512 + oct:64), then the cell's setkey
 * The configuration in force is the one of the last admitted call; a refused call must leave no trace. */
static int other_ki = -1;
static int do_setkey(void *obj, int builder, jwt_alg_t alg, const jwk_item_t *item)
{
	return builder ? jwt_builder_setkey(obj, alg, item) : jwt_checker_setkey(obj, alg, item);
}
static void log_setkey(int builder, long idx, int prov, int route, int cfg, int ki, int kalg, int pub, int rc, void *obj)
{
	printf("[\"%s\",%ld,%d,%d,%d,%d,%d,%d,%d,%d]\n", builder ? "T" : "S", idx, prov, route, cfg, ki, kalg, pub, rc,
	       builder ? jwt_builder_error(obj) : jwt_checker_error(obj));
	if (builder) jwt_builder_error_clear(obj); else jwt_checker_error_clear(obj);
}
static int none_ki(void)
{
	for (int i = 0; i < L_keys.n; i++) if (!Z[i].present) return i;
	vh_harness_fail("history routes need the key 'none' in the zoo");
	return -1;
}
/* returns the cell's setkey rc; e_* describe the configuration in force afterwards */
static int setkey_history(void *obj, int builder, long idx, int prov, int route, int cfg, int ki, int kalg, int pub,
			  const jwk_item_t *item, int *e_alg, int *e_key, int *e_ki, int *e_kalg, int *e_pub)
{
	int rc, rc2;
	if (other_ki < 0) vh_harness_fail("history routes need oct:64 in the zoo");
	*e_alg = JWT_ALG_NONE; *e_key = 0; *e_ki = ki; *e_kalg = kalg; *e_pub = pub;
	if (route == 7) {
		const jwk_item_t *o = get_item(prov, other_ki, -1, 0);
		if (do_setkey(obj, builder, JWT_ALG_HS512, o)) vh_harness_fail("history: HS512 + oct:64 refused");
		log_setkey(builder, idx, prov, route, JWT_ALG_HS512, other_ki, -1, 0, 0, obj);
		*e_alg = JWT_ALG_HS512; *e_key = 1; *e_ki = other_ki; *e_kalg = -1; *e_pub = 0;
	}
	rc = do_setkey(obj, builder, (jwt_alg_t)cfg, item);
	log_setkey(builder, idx, prov, route, cfg, ki, kalg, pub, rc, obj);
	if (!rc) { *e_alg = cfg; *e_key = item != NULL; *e_ki = ki; *e_kalg = kalg; *e_pub = pub; }
	if (route == 5) {
		rc2 = do_setkey(obj, builder, JWT_ALG_HS256, NULL);
		log_setkey(builder, idx, prov, route, JWT_ALG_HS256, none_ki(), -1, 0, rc2, obj);
		if (!rc2) { *e_alg = JWT_ALG_HS256; *e_key = 0; }
	} else if (route == 6) {
		if (idx & 1) {
			const jwk_item_t *o = get_item(prov, other_ki, JWT_ALG_HS256, 0);
			rc2 = do_setkey(obj, builder, JWT_ALG_HS384, o);
			log_setkey(builder, idx, prov, route, JWT_ALG_HS384, other_ki, JWT_ALG_HS256, 0, rc2, obj);
			if (!rc2) { *e_alg = JWT_ALG_HS384; *e_key = 1; *e_ki = other_ki; *e_kalg = JWT_ALG_HS256; *e_pub = 0; }
		} else {
			const jwk_item_t *o = get_item(prov, other_ki, -1, 0);
			rc2 = do_setkey(obj, builder, JWT_ALG_NONE, o);
			log_setkey(builder, idx, prov, route, JWT_ALG_NONE, other_ki, -1, 0, rc2, obj);
			if (!rc2) { *e_alg = JWT_ALG_NONE; *e_key = 1; *e_ki = other_ki; *e_kalg = -1; *e_pub = 0; }
		}
	}
	return rc;
}

int main(int argc, char **argv)
{
	vh_args_t a;
	long idx = 0;
	vh_parse_args(argc, argv, &a);
	if (!a.arg1) vh_harness_fail("need --arg1 spec");
	parse_spec(a.arg1);
	init_hdr();
	vh_hook_install();
	vh_rng_seed(&rng, a.seed, 7000 + (uint64_t)a.shard);

	/* key zoo */
	vh_set_prov(0);
	for (int i = 0; i < L_keys.n; i++) {
		if (!strcmp(L_keys.v[i], "none")) { Z[i].present = 0; continue; }
		if (vh_key_gen(&Z[i].k, L_keys.v[i], &rng))
			vh_harness_fail("keygen %s", L_keys.v[i]);
		Z[i].present = 1;
		if (other_ki < 0 && !strcmp(L_keys.v[i], "oct:64")) other_ki = i;
		if (Z[i].k.kind != VH_K_OCT) {
			const jwk_item_t *it = get_item(0, i, -1, 1);
			const char *pem = it ? jwks_item_pem(it) : NULL;
			if (pem) Z[i].pubpem = strdup(pem);
		}
		if (a.shard == 0 && a.start == 0) {
			printf("[\"K\",%d,\"%s\",%d,%d,\"%s\"]\n", i, Z[i].k.name, (int)Z[i].k.kind, Z[i].k.bits, Z[i].k.crv);
		}
	}
	if (a.shard == 0 && a.start == 0) {
		for (int i = 0; i < L_keys.n; i++) if (!Z[i].present) printf("[\"K\",%d,\"none\",0,0,\"\"]\n", i);
		for (int h = 0; h < NHDR; h++) { printf("[\"H\",%d,", h); vh_put_jstr(stdout, HV[h].json ? HV[h].json : "<missing>"); printf(",%d]\n", HV[h].intended); }
	}

	for (int pi = 0; pi < L_prov.n; pi++)
	for (int ri = 0; ri < L_route.n; ri++)
	for (int ci = 0; ci < L_cfg.n; ci++)
	for (int ki = 0; ki < L_keys.n; ki++)
	for (int ai = 0; ai < L_kalg.n; ai++)
	for (int ui = 0; ui < L_pub.n; ui++, idx++) {
		int prov = L_prov.v[pi], route = L_route.v[ri], cfg = L_cfg.v[ci], kalg = L_kalg.v[ai], pub = L_pub.v[ui];
		zkey_t *z = &Z[ki];
		const jwk_item_t *item;
		if (!z->present && (ai != 0 || ui != 0)) continue;	/* no key: collapse key axes */
		if (z->present && z->k.kind == VH_K_OCT && pub) continue;	/* oct has no public form */
		if (pinonly && ((cfg == 0 && kalg <= 0) || (cfg != 0 && kalg >= 1 && cfg != kalg))) continue;
		if (!vh_mine(&a, idx)) continue;
		vh_case_begin(idx, "\"prov\":%d,\"route\":%d,\"cfg\":%d,\"key\":\"%s\",\"kalg\":%d,\"pub\":%d", prov, route, cfg,
			      z->present ? z->k.name : "none", kalg, pub);
		vh_set_prov(prov);
		item = get_item(prov, ki, kalg, pub);

		if (op_v) {
			jwt_checker_t *chk = jwt_checker_new();
			cbctx_t cx = { item, cfg, 0, 0, 0, 0, 0, 0 };
			int setkey_rc = -1, eff_alg = JWT_ALG_NONE, eff_key = 0, e_ki = ki, e_kalg = kalg, e_pub = pub;
			if (!chk) vh_harness_fail("checker_new");
			switch (route) {
			case 0:
				setkey_rc = jwt_checker_setkey(chk, (jwt_alg_t)cfg, item);
				if (!setkey_rc) { eff_alg = cfg; eff_key = item != NULL; }
				break;
			case 1: cx.mode = 1; (g_cx = &cx, jwt_checker_setcb(chk, the_cb, (idx & 1) ? &cx : NULL)); eff_alg = cfg; eff_key = item != NULL; break;
			case 2: cx.mode = 2; (g_cx = &cx, jwt_checker_setcb(chk, the_cb, (idx & 1) ? &cx : NULL)); eff_alg = JWT_ALG_NONE; eff_key = item != NULL; break;
			case 3:
				setkey_rc = jwt_checker_setkey(chk, JWT_ALG_NONE, item);
				cx.mode = 3; (g_cx = &cx, jwt_checker_setcb(chk, the_cb, (idx & 1) ? &cx : NULL));
				eff_alg = cfg; eff_key = (!setkey_rc && item != NULL);
				break;
			case 4:	/* setkey then a callback that changes nothing */
				setkey_rc = jwt_checker_setkey(chk, (jwt_alg_t)cfg, item);
				cx.mode = 0; (g_cx = &cx, jwt_checker_setcb(chk, the_cb, (idx & 1) ? &cx : NULL));
				if (!setkey_rc) { eff_alg = cfg; eff_key = item != NULL; }
				break;
			case 5: case 6: case 7:
				setkey_rc = setkey_history(chk, 0, idx, prov, route, cfg, ki, kalg, pub, item, &eff_alg, &eff_key, &e_ki, &e_kalg, &e_pub);
				break;
			case 9: {	/* history on one checker: the callback supplies the same key with the key's natural alg once (a valid
					 * token of that alg is verified), then with the cell's alg: what passed for one alg says nothing about another */
				cx.mode = 4; cx.warm_alg = z->present ? natural_alg(&z->k) : JWT_ALG_NONE;
				(g_cx = &cx, jwt_checker_setcb(chk, the_cb, (idx & 1) ? &cx : NULL)); eff_alg = cfg; eff_key = item != NULL;
				if (z->present) {
					char wh[96], *wt;
					snprintf(wh, sizeof(wh), "{\"alg\":\"%s\"}", vh_alg_name(cx.warm_alg));
					wt = vh_ref_token(&z->k, cx.warm_alg, wh, "{\"sub\":\"warm-up\"}");
					if (wt) { jwt_checker_verify(chk, wt); free(wt); } else cx.total = 1;
				} else cx.total = 1;
				if (cx.total == 0) cx.total = 1;	/* the warm-up never reached the callback */
				break;
			}
			case 10: {	/* history on one checker: the cell's setkey; a callback that selects (HS512, oct:64) for the first token only
					 * (a token valid for that pair is verified) and leaves the configuration alone afterwards: the per-token
					 * choice must not replace what the application pinned */
				char *wt;
				if (other_ki < 0) vh_harness_fail("route 10 needs oct:64 in the zoo");
				setkey_rc = jwt_checker_setkey(chk, (jwt_alg_t)cfg, item);
				if (!setkey_rc) { eff_alg = cfg; eff_key = item != NULL; }
				cx.mode = 5; cx.warm_alg = JWT_ALG_HS512; cx.key = get_item(prov, other_ki, -1, 0);
				g_cx = &cx; jwt_checker_setcb(chk, the_cb, (idx & 1) ? &cx : NULL);
				wt = vh_ref_token(&Z[other_ki].k, JWT_ALG_HS512, "{\"alg\":\"HS512\"}", "{\"sub\":\"first-token-only\"}");
				if (wt) {
					int rc2, rv;
					jwt_checker_verify(chk, wt); jwt_checker_error_clear(chk);
					if (cx.total == 0) cx.total = 1;
					/* the same token again, now that the callback keeps out: judged like any other token of this cell */
					rv = z->present ? vh_ref_token_valid(&z->k, wt, NULL) : 0;
					cx.calls = 0;
					rc2 = jwt_checker_verify(chk, wt);
					printf("[\"V\",%ld,%d,%d,%d,%d,%d,%d,%d,%d,%d,%d,%d,%d,%d,%d,", idx, prov, route, cfg, ki, kalg, pub, setkey_rc, eff_alg, eff_key, 3, 2, rv, rc2, jwt_checker_error(chk));
					put_msg(jwt_checker_error_msg(chk)); printf(",%d,[]]\n", cx.calls);
					jwt_checker_error_clear(chk);
					free(wt);
				} else cx.total = 1;
				break;
			}
			case 8: {	/* preset by setkey(none, another key that names its alg), then the callback replaces key and alg */
				const jwk_item_t *o;
				if (other_ki < 0) vh_harness_fail("route 8 needs oct:64 in the zoo");
				o = get_item(prov, other_ki, JWT_ALG_HS512, 0);
				if (do_setkey(chk, 0, JWT_ALG_NONE, o)) vh_harness_fail("route 8 preset refused");
				log_setkey(0, idx, prov, route, JWT_ALG_NONE, other_ki, JWT_ALG_HS512, 0, 0, chk);
				cx.mode = 1; (g_cx = &cx, jwt_checker_setcb(chk, the_cb, (idx & 1) ? &cx : NULL)); eff_alg = cfg; eff_key = item != NULL;
				break;
			}
			case 11: {	/* the same preset, then the callback replaces the key ONLY: the preset key's alg attribute does not travel with it */
				const jwk_item_t *o;
				if (other_ki < 0) vh_harness_fail("route 11 needs oct:64 in the zoo");
				o = get_item(prov, other_ki, JWT_ALG_HS512, 0);
				if (do_setkey(chk, 0, JWT_ALG_NONE, o)) vh_harness_fail("route 11 preset refused");
				log_setkey(0, idx, prov, route, JWT_ALG_NONE, other_ki, JWT_ALG_HS512, 0, 0, chk);
				cx.mode = 2; (g_cx = &cx, jwt_checker_setcb(chk, the_cb, (idx & 1) ? &cx : NULL)); eff_alg = JWT_ALG_NONE; eff_key = item != NULL;
				break;
			}
			}
			/* a quarter of the callback cells: the documented context-only update (NULL callback, a context) after the registration; the
			 * callback stays registered */
			if ((idx & 3) == 3 && ((route >= 1 && route <= 4) || route >= 8)) jwt_checker_setcb(chk, NULL, &cx);
			if (route < 5) printf("[\"S\",%ld,%d,%d,%d,%d,%d,%d,%d,%d]\n", idx, prov, route, cfg, ki, kalg, pub, setkey_rc, jwt_checker_error(chk));
			jwt_checker_error_clear(chk);
			for (int hi = 0; hi < L_hdr.n; hi++)
			for (int si = 0; si < L_sig.n; si++) {
				int h = L_hdr.v[hi], sk = L_sig.v[si], refvalid = 0, rc, ef;
				const char *tok = get_token(z->present ? ki : -1, h, sk, &refvalid), *msg;
				vh_hookrec_t dump[4];
				if (!tok) continue;
				vh_hook_drain(dump, 0);
				cx.calls = 0;
				if (e_ki != ki)	/* the configuration in force holds another key than the one the token was made for */
					refvalid = Z[e_ki].present ? vh_ref_token_valid(&Z[e_ki].k, tok, NULL) : 0;
				rc = jwt_checker_verify(chk, tok);
				ef = jwt_checker_error(chk);
				msg = jwt_checker_error_msg(chk);
				printf("[\"V\",%ld,%d,%d,%d,%d,%d,%d,%d,%d,%d,%d,%d,%d,%d,%d,", idx, prov, route, cfg, e_ki, e_kalg, e_pub,
				       setkey_rc, eff_alg, eff_key, h, sk, refvalid, rc, ef);
				put_msg(msg);
				printf(",%d", cx.calls);
				vh_put_hooks(stdout, 0);
				if (a.only >= 0) { printf(","); vh_put_jstr(stdout, tok); }
				printf("]\n");
				jwt_checker_error_clear(chk);
			}
			/* a key item that verification flagged afterwards must say why (C14: every flagged item carries a message) */
			if (item && jwks_item_error(item))
				printf("[\"KI\",%ld,%d,%d,%d,%d,\"v\",%d]\n", idx, prov, ki, kalg, pub, jwks_item_error_msg(item)[0] != 0);
			jwt_checker_free(chk);
		}
		if (op_g) {
			jwt_builder_t *b = jwt_builder_new();
			cbctx_t cx = { item, cfg, 0, 0, 0, 0, 0, 0 };
			int setkey_rc = -1, eff_alg = JWT_ALG_NONE, eff_key = 0, e_ki = ki, e_kalg = kalg, e_pub = pub;
			char *tok;
			int halg = -2, third_empty = 0, refvalid = 0, shape_ok = 0, ef;
			vh_hookrec_t dump[4];
			if (!b) vh_harness_fail("builder_new");
			switch (route) {
			case 0:
				setkey_rc = jwt_builder_setkey(b, (jwt_alg_t)cfg, item);
				if (!setkey_rc) { eff_alg = cfg; eff_key = item != NULL; }
				break;
			case 1: cx.mode = 1; (g_cx = &cx, jwt_builder_setcb(b, the_cb, (idx & 1) ? &cx : NULL)); eff_alg = cfg; eff_key = item != NULL; break;
			case 2: cx.mode = 2; (g_cx = &cx, jwt_builder_setcb(b, the_cb, (idx & 1) ? &cx : NULL)); eff_alg = JWT_ALG_NONE; eff_key = item != NULL; break;
			case 3:
				setkey_rc = jwt_builder_setkey(b, JWT_ALG_NONE, item);
				cx.mode = 3; (g_cx = &cx, jwt_builder_setcb(b, the_cb, (idx & 1) ? &cx : NULL));
				eff_alg = cfg; eff_key = (!setkey_rc && item != NULL);
				break;
			case 4:
				setkey_rc = jwt_builder_setkey(b, (jwt_alg_t)cfg, item);
				cx.mode = 0; (g_cx = &cx, jwt_builder_setcb(b, the_cb, (idx & 1) ? &cx : NULL));
				if (!setkey_rc) { eff_alg = cfg; eff_key = item != NULL; }
				break;
			case 5: case 6: case 7:
				setkey_rc = setkey_history(b, 1, idx, prov, route, cfg, ki, kalg, pub, item, &eff_alg, &eff_key, &e_ki, &e_kalg, &e_pub);
				break;
			case 9: {
				char *wt;
				cx.mode = 4; cx.warm_alg = z->present ? natural_alg(&z->k) : JWT_ALG_NONE;
				(g_cx = &cx, jwt_builder_setcb(b, the_cb, (idx & 1) ? &cx : NULL)); eff_alg = cfg; eff_key = item != NULL;
				wt = jwt_builder_generate(b); free(wt);
				jwt_builder_error_clear(b);
				if (cx.total == 0) cx.total = 1;
				break;
			}
			case 8: {
				const jwk_item_t *o;
				if (other_ki < 0) vh_harness_fail("route 8 needs oct:64 in the zoo");
				o = get_item(prov, other_ki, JWT_ALG_HS512, 0);
				if (do_setkey(b, 1, JWT_ALG_NONE, o)) vh_harness_fail("route 8 preset refused");
				log_setkey(1, idx, prov, route, JWT_ALG_NONE, other_ki, JWT_ALG_HS512, 0, 0, b);
				cx.mode = 1; (g_cx = &cx, jwt_builder_setcb(b, the_cb, (idx & 1) ? &cx : NULL)); eff_alg = cfg; eff_key = item != NULL;
				break;
			}
			}
			if ((idx & 3) == 3 && ((route >= 1 && route <= 4) || route >= 8)) jwt_builder_setcb(b, NULL, &cx);
			/* a quarter of the builder cells: the application has put an "alg" member of its own into the header (as a string, or through a
			 * JSON header template); the token still names the pinned algorithm and nothing else */
			if ((idx & 7) == 5) { jwt_value_t hv; jwt_set_SET_STR(&hv, "alg", (idx & 8) ? "RS256" : "none"); jwt_builder_header_set(b, &hv); }
			if ((idx & 7) == 6) { jwt_value_t hv; jwt_set_SET_JSON(&hv, NULL, (idx & 8) ? "{\"alg\":\"HS256\",\"typ\":\"own\"}" : "{\"alg\":7}"); jwt_builder_header_set(b, &hv); }
			if (route < 5) printf("[\"T\",%ld,%d,%d,%d,%d,%d,%d,%d,%d]\n", idx, prov, route, cfg, ki, kalg, pub, setkey_rc, jwt_builder_error(b));
			jwt_builder_error_clear(b);
			{	/* header and payload JSON of every length residue mod 3 (base64 with and without padding in either segment) */
				static const char *PADV[] = { "", "a", "ab" };
				jwt_value_t jv;
				jwt_set_SET_STR(&jv, "x", PADV[idx % 3]); jwt_builder_header_set(b, &jv);
				jwt_set_SET_STR(&jv, "y", PADV[(idx / 3) % 3]); jwt_builder_claim_set(b, &jv);
				jwt_builder_enable_iat(b, 0);
			}
			vh_hook_drain(dump, 0);
			tok = jwt_builder_generate(b);
			ef = jwt_builder_error(b);
			if (tok)
				inspect_token(tok, Z[e_ki].present ? &Z[e_ki].k : NULL, &halg, &third_empty, &refvalid, &shape_ok);
			printf("[\"G\",%ld,%d,%d,%d,%d,%d,%d,%d,%d,%d,%d,%d,", idx, prov, route, cfg, e_ki, e_kalg, e_pub, setkey_rc, eff_alg, eff_key,
			       tok ? 0 : 1, ef);
			put_msg(jwt_builder_error_msg(b));
			printf(",%d,%d,%d,%d,%d", halg, third_empty, refvalid, shape_ok, cx.calls);
			vh_put_hooks(stdout, 0);
			if (a.only >= 0 && tok) { printf(","); vh_put_jstr(stdout, tok); }
			printf("]\n");
			free(tok);
			if (item && jwks_item_error(item))
				printf("[\"KI\",%ld,%d,%d,%d,%d,\"g\",%d]\n", idx, prov, ki, kalg, pub, jwks_item_error_msg(item)[0] != 0);
			jwt_builder_free(b);
		}
	}
	/* tidy up so that LeakSanitizer has something meaningful to say */
	for (int i = 0; i < L_keys.n; i++) {
		for (int p = 0; p < VH_NPROV; p++) if (Z[i].sets[p]) jwks_free(Z[i].sets[p]);
		for (int h = 0; h < NHDR; h++) for (int s = 0; s < NSIG; s++) free(Z[i].tok[h][s]);
		free(Z[i].pubpem);
		if (Z[i].present) vh_key_free(&Z[i].k);
	}
	for (int h = 0; h < NHDR; h++) for (int s = 0; s < NSIG; s++) free(nokey.tok[h][s]);
	printf("[\"END\",%d]\n", a.shard);
	return 0;
}

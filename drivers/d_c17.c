/* C17: allocation failure is reported — never a crash, never a wrong success.
 * For each scenario the number n of allocations is measured fault-free, then every k in 1..n is injected
 * (the k-th request made through jwt_set_alloc's allocator returns NULL) and the outcome compared with the fault-free run.
 *   ["B", scen, name, n, baseline_rc, baseline_text]
 *   ["F", scen, k, outcome, chain]        outcome: same | reported | <violation kind>
 */
#include "vh.h"
#include <execinfo.h>
#include <stdarg.h>
#include <stddef.h>
#include <dlfcn.h>
#include <unistd.h>

extern void __sanitizer_symbolize_pc(void *pc, const char *fmt, char *out, size_t out_size) __attribute__((weak));

#define NOW 1700000000L
static long alloc_count, fail_at;
static int inject_on;
static char fail_chain[512];

static void record_chain(void)
{
	void *bt[24];
	int n = backtrace(bt, 24), used = 0;
	fail_chain[0] = 0;
	int last_anon = 0;
	for (int i = 1; i < n && used < 6; i++) {
		char fn[128] = "";
		Dl_info di;
		int anon = 0;
		if (__sanitizer_symbolize_pc)
			__sanitizer_symbolize_pc((char *)bt[i] - 1, "%f", fn, sizeof(fn));
		if (!fn[0] || !strcmp(fn, "<null>") || !strcmp(fn, "??")) {
			if (dladdr(bt[i], &di) && di.dli_sname) snprintf(fn, sizeof(fn), "%s", di.dli_sname);
			else if (dladdr(bt[i], &di) && di.dli_fname && strstr(di.dli_fname, "jansson")) { snprintf(fn, sizeof(fn), "jansson*"); anon = 1; }
			else continue;
		}
		if (!strcmp(fn, "my_malloc") || !strcmp(fn, "jwt_malloc") || !strcmp(fn, "record_chain")) continue;
		if (!strncmp(fn, "scen_", 5) || !strcmp(fn, "main") || !strcmp(fn, "run_scenario") || !strcmp(fn, "gen_token")) break;
		if (anon && last_anon) continue;	/* collapse runs of unnamed jansson-internal frames */
		last_anon = anon;
		if (used) strncat(fail_chain, "<", sizeof(fail_chain) - strlen(fail_chain) - 1);
		strncat(fail_chain, fn, sizeof(fail_chain) - strlen(fail_chain) - 1);
		used++;
	}
}

/* jansson's serialiser and parser entry points are wrapped (the driver's definitions win over the shared library's): when a result
 * differs, the monitor has to know whether jansson *reported* the failed allocation to libjwt (which then ignored it: libjwt's
 * defect) or swallowed it itself (jansson's, on file as known findings) */
#include <jansson.h>
static const char *jfail;	/* first wrapped entry point that returned failure during the current run */
#define JREAL(name) static __typeof__(&name) real; if (!real) real = (__typeof__(&name))dlsym(RTLD_NEXT, #name)
#define JNOTE(cond, name) do { if (inject_on && (cond) && !jfail) jfail = name; } while (0)
char *json_dumps(const json_t *j, size_t fl) { JREAL(json_dumps); char *r = real(j, fl); JNOTE(!r, "json_dumps"); return r; }
size_t json_dumpb(const json_t *j, char *b, size_t n, size_t fl) { JREAL(json_dumpb); size_t r = real(j, b, n, fl); JNOTE(!r, "json_dumpb"); return r; }
int json_dump_callback(const json_t *j, json_dump_callback_t cb, void *d, size_t fl) { JREAL(json_dump_callback); int r = real(j, cb, d, fl); JNOTE(r != 0, "json_dump_callback"); return r; }
json_t *json_loads(const char *s, size_t fl, json_error_t *e) { JREAL(json_loads); json_t *r = real(s, fl, e); JNOTE(!r, "json_loads"); return r; }
json_t *json_loadb(const char *s, size_t n, size_t fl, json_error_t *e) { JREAL(json_loadb); json_t *r = real(s, n, fl, e); JNOTE(!r, "json_loadb"); return r; }
json_t *json_loadf(FILE *f, size_t fl, json_error_t *e) { JREAL(json_loadf); json_t *r = real(f, fl, e); JNOTE(!r, "json_loadf"); return r; }
json_t *json_load_file(const char *p, size_t fl, json_error_t *e) { JREAL(json_load_file); json_t *r = real(p, fl, e); JNOTE(!r, "json_load_file"); return r; }
json_t *json_deep_copy(const json_t *j) { JREAL(json_deep_copy); json_t *r = real(j); JNOTE(j && !r, "json_deep_copy"); return r; }

/* every block handed to the application's free function must have come from the application's malloc function (a pool or
 * accounting allocator installed through jwt_set_alloc is corrupted otherwise): live blocks are tracked in a hash set */
#define PT_SIZE (1u << 18)
static void *pt[PT_SIZE];
static unsigned ptsz[PT_SIZE];
static unsigned long foreign_frees, tracked_allocs, quarantined, writes_after_free;
static const char *cur_scen = "-";
static unsigned pt_slot(void *p) { return (unsigned)(((uintptr_t)p >> 4) * 2654435761u) & (PT_SIZE - 1); }
/* entries are stored disguised (xor), so that the table itself does not keep a leaked block reachable in LeakSanitizer's eyes */
#define PT_HIDE(p) ((void *)((uintptr_t)(p) ^ (uintptr_t)0x5a5a5a5a5a5a5a5aULL))
static void pt_add(void *p_, size_t n)
{
	void *p = PT_HIDE(p_);
	unsigned i = pt_slot(p_), spare = PT_SIZE;
	/* an entry for the same address is stale (the application released that block with free() itself, e.g. a returned token): reuse it */
	for (unsigned k = 0; k < PT_SIZE && pt[i]; k++, i = (i + 1) & (PT_SIZE - 1)) {
		if (pt[i] == p) { ptsz[i] = (unsigned)n; return; }
		if (pt[i] == (void *)1 && spare == PT_SIZE) spare = i;
	}
	if (spare != PT_SIZE) i = spare;
	pt[i] = p; ptsz[i] = (unsigned)n;
}
static int pt_del(void *p_, size_t *n)
{
	void *p = PT_HIDE(p_);
	unsigned i = pt_slot(p_);
	for (unsigned k = 0; k < PT_SIZE && pt[i]; k++, i = (i + 1) & (PT_SIZE - 1))
		if (pt[i] == p) { pt[i] = (void *)1; *n = ptsz[i]; return 1; }
	return 0;
}
static void *my_malloc(size_t n)
{
	void *p;
	if (inject_on) {
		alloc_count++;
		if (alloc_count == fail_at) { record_chain(); return NULL; }
	}
	p = malloc(n);
	if (p) { pt_add(p, n); tracked_allocs++; }
	return p;
}
/* jansson is not instrumented, so the sanitizer sees neither its reads nor its writes: freed blocks are therefore filled with a pattern and
 * kept until the scenario run is over; a block whose pattern has changed by then was written to after it was freed (a dangling json_t that
 * is dereferenced reads the pattern: its reference count, type and pointers are 0xDD..., which ends in such a write or in a fault) */
#define QMAX 400000
static struct { void *p; unsigned n; } quar[QMAX];
static unsigned nquar;
static void my_free(void *p)
{
	size_t n = 0;
	if (!p) return;
	if (!pt_del(p, &n)) {
		if (foreign_frees++ < 20) printf("[\"FF\",\"%s\",%ld]\n", cur_scen, fail_at);
		free(p);
		return;
	}
	if (nquar < QMAX) { memset(p, 0xDD, n); quar[nquar].p = p; quar[nquar].n = (unsigned)n; nquar++; quarantined++; }
	else free(p);
}
static void quarantine_release(void)
{
	for (unsigned i = 0; i < nquar; i++) {
		const unsigned char *b = quar[i].p;
		for (unsigned j = 0; j < quar[i].n; j++)
			if (b[j] != 0xDD) {
				if (writes_after_free++ < 20) printf("[\"WF\",\"%s\",%ld,%u,%u]\n", cur_scen, fail_at, quar[i].n, j);
				break;
			}
		free(quar[i].p);
	}
	nquar = 0;
}

/* ---- fixtures (created fault-free) -------------------------------------------- */
static vh_rng_t rng;
#define NKEY 9
static vh_key_t K[NKEY];
static const char *KSPEC[NKEY] = { "oct:48", "rsa:2048", "ec:P-256", "okp:Ed25519", "ec:P-384", "okp:Ed448", "ec:P-521", "oct:64", "rsa:3072" };
static const int KALG[NKEY] = { JWT_ALG_HS256, JWT_ALG_RS256, JWT_ALG_ES256, JWT_ALG_EDDSA, JWT_ALG_ES384, JWT_ALG_EDDSA, JWT_ALG_ES512, JWT_ALG_HS512, JWT_ALG_PS384 };
static char *JWK_PRIV[NKEY], *JWK_PUB[NKEY];
static jwk_set_t *fixset[2];
static const jwk_item_t *FPRIV[2][NKEY], *FPUB[2][NKEY];

typedef struct { int rc; char text[70000]; int reported; } res_t;
static void res_addf(res_t *r, const char *fmt, ...) __attribute__((format(printf, 2, 3)));
static void res_addf(res_t *r, const char *fmt, ...)
{
	va_list ap;
	size_t l = strlen(r->text);
	va_start(ap, fmt);
	vsnprintf(r->text + l, sizeof(r->text) - l, fmt, ap);
	va_end(ap);
}

/* ---- scenarios -------------------------------------------------------------------- */
typedef enum { T_LOAD, T_CONFIG, T_GEN, T_VERIFY } skind_t;
typedef struct { const char *name; skind_t kind; int prov; int key; int variant; } scen_t;
#define MAXS 200
static scen_t S[MAXS];
static int ns;

static void describe_set(res_t *r, jwk_set_t *set)
{
	size_t n;
	if (!set) { r->reported = 1; return; }
	if (jwks_error(set)) r->reported = 1;
	n = jwks_item_count(set);
	res_addf(r, "n=%zu;", n);
	for (size_t i = 0; i < n; i++) {
		const jwk_item_t *it = jwks_item_get(set, i);
		const unsigned char *b; size_t bl;
		if (!it) { res_addf(r, "[NULL]"); continue; }
		if (jwks_item_error(it)) { r->reported = 1; }
		res_addf(r, "[%s,e%d,t%d,b%d,a%d,p%d,pem%d,oct%d]", jwks_item_kid(it) ? jwks_item_kid(it) : "-", jwks_item_error(it), (int)jwks_item_kty(it),
			 jwks_item_key_bits(it), (int)jwks_item_alg(it), jwks_item_is_private(it), jwks_item_pem(it) != NULL, !jwks_item_key_oct(it, &b, &bl));
	}
}

static const char *hard_outcome;	/* set by a scenario when something is wrong whatever was reported */
static char *VTOK[NKEY + 1][5];
/* a keyring that is in use gets more keys: whatever happens to the append, the keys that were there stay (builders and checkers point to them) */
static void scen_append(const scen_t *s, res_t *r)
{
	jwk_set_t *set = jwks_create(JWK_PRIV[0]), *s2;
	const jwk_item_t *a;
	jwt_checker_t *c;
	if (!set || jwks_error(set) || jwks_item_count(set) != 1 || jwks_item_error(jwks_item_get(set, 0))) { r->reported = 1; jwks_free(set); return; }
	a = jwks_item_get(set, 0);
	s2 = s->variant == 7 ? jwks_load(set, JWK_PRIV[s->key]) : jwks_load_strn(set, JWK_PUB[2], strlen(JWK_PUB[2]));
	if (!s2 || jwks_error(set)) r->reported = 1;
	if (jwks_item_count(set) < 1 || jwks_item_get(set, 0) != a) hard_outcome = "OLDER-KEY-GONE-AFTER-FAILED-APPEND";
	else {
		c = jwt_checker_new();
		if (!c) r->reported = 1;
		else {
			if (jwt_checker_setkey(c, (jwt_alg_t)KALG[0], a)) r->reported = 1;
			else { int rc = jwt_checker_verify(c, VTOK[0][0]); if (rc) r->reported = 1; res_addf(r, "older-key-verify=%d;", rc != 0); }
			jwt_checker_free(c);
		}
	}
	describe_set(r, set);
	jwks_free(set);
}

static void scen_load(const scen_t *s, res_t *r)
{
	if (s->variant >= 7) { scen_append(s, r); return; }
	jwk_set_t *set = NULL;
	char doc[12000];
	switch (s->variant) {
	case 0: case 3: case 4: case 5: snprintf(doc, sizeof(doc), "%s", JWK_PRIV[s->key]); break;
	case 1: snprintf(doc, sizeof(doc), "%s", JWK_PUB[s->key] ? JWK_PUB[s->key] : JWK_PRIV[s->key]); break;
	default: snprintf(doc, sizeof(doc), "{\"keys\":[%s,{\"kty\":\"oct\",\"kid\":\"broken\"},%s]}", JWK_PRIV[0], JWK_PRIV[s->key]); break;
	}
	if (s->variant >= 4 && s->variant <= 5) {
		static char path[64];
		FILE *f;
		int was = inject_on;
		inject_on = 0;	/* writing the temp file is the harness' business */
		snprintf(path, sizeof(path), "/tmp/vh_c17_%d.json", (int)getpid());
		f = fopen(path, "w"); fputs(doc, f); fclose(f);
		inject_on = was;
		if (s->variant == 4) set = jwks_create_fromfile(path);
		else { f = fopen(path, "r"); set = jwks_create_fromfp(f); fclose(f); }
		unlink(path);
	} else
	set = s->variant == 3 ? jwks_create_strn(doc, strlen(doc)) : jwks_create(doc);
	describe_set(r, set);
	if (set && !r->reported && s->variant != 2) {
		/* a second load into the same set */
		jwk_set_t *s2 = jwks_load(set, JWK_PRIV[0]);
		if (!s2) r->reported = 1; else { res_addf(r, "+"); describe_set(r, s2); }
	}
	jwks_free(set);
}

static int cfg_cb(jwt_t *jwt, jwt_config_t *cfg)
{
	jwt_value_t v;
	(void)cfg;
	jwt_set_SET_STR(&v, "cbclaim", "from-callback");
	if (jwt_claim_set(jwt, &v) != JWT_VALUE_ERR_NONE) return 1;
	jwt_set_SET_INT(&v, "cbhdr", 7);
	if (jwt_header_set(jwt, &v) != JWT_VALUE_ERR_NONE) return 1;
	return 0;
}
/* callback exercising the jwt_t API; any failing call is reported by returning non-zero */
static res_t *cb_res;
static int jwtt_cb(jwt_t *jwt, jwt_config_t *cfg)
{
	jwt_value_t v;
	(void)cfg;
	jwt_set_SET_JSON(&v, "obj", "{\"k\":[1,2,3]}"); if (jwt_claim_set(jwt, &v)) return 1;
	jwt_set_SET_BOOL(&v, "flag", 1); if (jwt_claim_set(jwt, &v)) return 1;
	jwt_set_SET_STR(&v, "kid", "cb-kid"); v.replace = 1; if (jwt_header_set(jwt, &v)) return 1;
	jwt_set_SET_JSON(&v, NULL, "{\"m1\":1,\"m2\":\"two\"}"); v.replace = 1; if (jwt_header_set(jwt, &v)) return 1;
	jwt_set_GET_JSON(&v, NULL); if (jwt_claim_get(jwt, &v)) return 1;
	if (cb_res) res_addf(cb_res, "cbclaims=%s;", v.json_val);
	free(v.json_val);
	jwt_set_GET_JSON(&v, "obj"); if (jwt_claim_get(jwt, &v)) return 1;
	free(v.json_val);
	jwt_set_GET_STR(&v, "kid"); if (jwt_header_get(jwt, &v)) return 1;
	if (jwt_claim_del(jwt, "flag")) return 1;
	return 0;
}

static int read_cb(jwt_t *jwt, jwt_config_t *cfg)
{
	jwt_value_t v;
	(void)cfg;
	jwt_set_GET_JSON(&v, NULL);
	if (jwt_claim_get(jwt, &v) == JWT_VALUE_ERR_NONE) free(v.json_val);
	jwt_set_GET_STR(&v, "iss"); jwt_claim_get(jwt, &v);
	return 0;
}

#define CFG(call) do { int _e = (int)(call); res_addf(r, "%d,", _e); if (_e) { r->reported = 1; goto out; } } while (0)

static void scen_config_builder(res_t *r)
{
	jwt_value_t v;
	jwt_builder_t *b = jwt_builder_new();
	if (!b) { r->reported = 1; return; }
	jwt_set_SET_STR(&v, "kid", "key-1"); CFG(jwt_builder_header_set(b, &v));
	jwt_set_SET_INT(&v, "n", 123456789012L); CFG(jwt_builder_claim_set(b, &v));
	jwt_set_SET_BOOL(&v, "admin", 1); CFG(jwt_builder_claim_set(b, &v));
	jwt_set_SET_JSON(&v, "nested", "{\"a\":[1,2,{\"b\":null}],\"c\":\"d\"}"); CFG(jwt_builder_claim_set(b, &v));
	jwt_set_SET_JSON(&v, NULL, "{\"iss\":\"me\",\"aud\":\"x\"}"); CFG(jwt_builder_claim_set(b, &v));
	jwt_set_SET_STR(&v, "kid", "key-2"); v.replace = 1; CFG(jwt_builder_header_set(b, &v));
	jwt_set_GET_STR(&v, "kid"); CFG(jwt_builder_header_get(b, &v)); res_addf(r, "%s;", v.str_val);
	jwt_set_GET_INT(&v, "n"); CFG(jwt_builder_claim_get(b, &v)); res_addf(r, "%ld;", v.int_val);
	jwt_set_GET_JSON(&v, "nested"); CFG(jwt_builder_claim_get(b, &v)); res_addf(r, "%s;", v.json_val); free(v.json_val);
	CFG(jwt_builder_claim_del(b, "admin"));
	jwt_set_GET_JSON(&v, NULL); CFG(jwt_builder_claim_get(b, &v)); res_addf(r, "%s;", v.json_val); free(v.json_val);
	jwt_set_GET_JSON(&v, NULL); v.pretty = 1; CFG(jwt_builder_header_get(b, &v)); res_addf(r, "%s;", v.json_val); free(v.json_val);
out:
	jwt_builder_free(b);
}
static void scen_config_checker(res_t *r)
{
	jwt_checker_t *c = jwt_checker_new();
	const char *g;
	if (!c) { r->reported = 1; return; }
	CFG(jwt_checker_claim_set(c, JWT_CLAIM_ISS, "issuer.example.com"));
	CFG(jwt_checker_claim_set(c, JWT_CLAIM_AUD, "aud"));
	CFG(jwt_checker_claim_set(c, JWT_CLAIM_ISS, "me"));
	CFG(jwt_checker_time_leeway(c, JWT_CLAIM_EXP, 30));
	g = jwt_checker_claim_get(c, JWT_CLAIM_ISS);
	if (!g) { r->reported = 1; res_addf(r, "get-null;"); } else res_addf(r, "%s;", g);
	CFG(jwt_checker_claim_del(c, JWT_CLAIM_AUD));
	CFG(jwt_checker_setkey(c, (jwt_alg_t)KALG[0], FPRIV[0][0]));
out:
	jwt_checker_free(c);
}
static void scen_config(const scen_t *s, res_t *r)
{
	if (s->variant == 0) scen_config_builder(r); else scen_config_checker(r);
}
#undef CFG
#define CFG(call) do { int _e = (int)(call); if (_e) { r->reported = 1; goto out; } } while (0)

static char *gen_token(const scen_t *s, res_t *r)
{
	jwt_builder_t *b = jwt_builder_new();
	jwt_value_t v;
	char *tok = NULL;
	if (!b) { r->reported = 1; return NULL; }
	if (s->key >= 0) CFG(jwt_builder_setkey(b, (jwt_alg_t)(s->key == 1 && s->variant == 2 ? JWT_ALG_PS256 : KALG[s->key]), FPRIV[s->prov][s->key]));
	jwt_set_SET_STR(&v, "iss", "me"); CFG(jwt_builder_claim_set(b, &v));
	if (s->variant >= 1 && s->variant != 4) {
		CFG(jwt_builder_time_offset(b, JWT_CLAIM_EXP, 300));
		CFG(jwt_builder_time_offset(b, JWT_CLAIM_NBF, 1));
		jwt_set_SET_STR(&v, "kid", "key-1"); CFG(jwt_builder_header_set(b, &v));
		jwt_set_SET_JSON(&v, "roles", "[\"a\",\"b\"]"); CFG(jwt_builder_claim_set(b, &v));
	}
	if (s->variant >= 5) {
		/* claims / headers whose JSON text exceeds 4 KiB and 16 KiB (larger than any buffer a serialiser would keep on the stack) */
		static char bigv[20001];
		size_t n = s->variant == 5 ? 5000 : s->variant == 6 ? 20000 : 4200;
		memset(bigv, 'x', n); bigv[n] = 0;
		jwt_set_SET_STR(&v, "data", bigv);
		if (s->variant == 7) CFG(jwt_builder_header_set(b, &v)); else CFG(jwt_builder_claim_set(b, &v));
	}
	if (s->variant == 3) CFG(jwt_builder_setcb(b, cfg_cb, NULL));
	if (s->variant == 4) { cb_res = r; CFG(jwt_builder_setcb(b, jwtt_cb, NULL)); }
	tok = jwt_builder_generate(b);
	cb_res = NULL;
	if (!tok) r->reported = 1;
out:
	jwt_builder_free(b);
	return tok;
}
static void scen_gen(const scen_t *s, res_t *r)
{
	char *tok = gen_token(s, r);
	if (tok) { res_addf(r, "%s", tok); free(tok); }
}

/* VTOK (declared above): per key: valid, bad-signature, expired, wrong-iss ; [NKEY]: alg none token */
static char *VREAL[2];	/* correctly signed HS256 / alg-none tokens whose exp and nbf are JSON reals (long expired): whatever the library does with such dates */
static char *VBIG[2];	/* valid HS256 (key 0) and alg-none tokens with a 6000-character claim */
static void scen_verify(const scen_t *s, res_t *r)
{
	jwt_checker_t *c = jwt_checker_new();
	const char *tok = s->variant == 6 ? VREAL[s->key >= 0 ? 0 : 1] : s->variant >= 5 ? VBIG[s->key >= 0 ? 0 : 1] : VTOK[s->key >= 0 ? s->key : NKEY][s->variant % 5];
	if (!c) { r->reported = 1; r->rc = 1; return; }
	r->rc = 1;
	if (s->key >= 0) CFG(jwt_checker_setkey(c, (jwt_alg_t)KALG[s->key], FPUB[s->prov][s->key]));
	CFG(jwt_checker_claim_set(c, JWT_CLAIM_ISS, "me"));
	CFG(jwt_checker_setcb(c, read_cb, NULL));
	r->reported = 0;
	r->rc = jwt_checker_verify(c, tok);
	res_addf(r, "rc=%d", r->rc != 0);
out:
	jwt_checker_free(c);
}

static void add_scen(const char *name, skind_t kind, int prov, int key, int variant)
{
	static char names[MAXS][64];
	if (ns >= MAXS) vh_harness_fail("more than %d scenarios", MAXS);
	snprintf(names[ns], sizeof(names[0]), "%s", name);
	S[ns] = (scen_t){ names[ns], kind, prov, key, variant };
	ns++;
}

static void run_scenario(const scen_t *s, res_t *r)
{
	r->rc = 0; r->reported = 0; r->text[0] = 0;
	vh_set_prov(s->prov);
	vh_now = NOW;
	switch (s->kind) {
	case T_LOAD: scen_load(s, r); break;
	case T_CONFIG: scen_config(s, r); break;
	case T_GEN: scen_gen(s, r); break;
	case T_VERIFY: scen_verify(s, r); break;
	}
}

static int same_hp(const char *a, const char *b)
{
	const char *da = strrchr(a, '.'), *db = strrchr(b, '.');
	return da && db && (da - a) == (db - b) && !strncmp(a, b, (size_t)(da - a));
}

int main(int argc, char **argv)
{
	vh_args_t a;
	static res_t base, got;
	vh_parse_args(argc, argv, &a);
	vh_rng_seed(&rng, a.seed, 17);
	jwt_set_alloc(my_malloc, my_free);
	for (int k = 0; k < NKEY; k++) {
		if (vh_key_gen(&K[k], KSPEC[k], &rng)) vh_harness_fail("keygen");
		JWK_PRIV[k] = vh_key_jwk(&K[k], 1, NULL, "kid-priv", NULL);
		JWK_PUB[k] = K[k].kind == VH_K_OCT ? NULL : vh_key_jwk(&K[k], 0, NULL, "kid-pub", "\"use\":\"sig\",\"key_ops\":[\"verify\"]");
	}
	for (int p = 0; p < 2; p++) {
		vh_set_prov(p);
		for (int k = 0; k < NKEY; k++) {
			FPRIV[p][k] = vh_key_load(&K[k], 1, NULL, &fixset[p]);
			FPUB[p][k] = vh_key_load(&K[k], K[k].kind == VH_K_OCT, NULL, &fixset[p]);
		}
	}
	for (int k = 0; k < NKEY; k++) {
		char hdr[64];
		snprintf(hdr, sizeof(hdr), "{\"alg\":\"%s\",\"typ\":\"JWT\"}", vh_alg_name(KALG[k]));
		VTOK[k][0] = vh_ref_token(&K[k], KALG[k], hdr, "{\"iss\":\"me\",\"exp\":1700009999}");
		VTOK[k][1] = vh_ref_token(&K[k], KALG[k], hdr, "{\"iss\":\"me\",\"exp\":1700009999,\"x\":1}");
		{ size_t l = strlen(VTOK[k][1]); VTOK[k][1][l - 3] = VTOK[k][1][l - 3] == 'A' ? 'B' : 'A'; }
		VTOK[k][2] = vh_ref_token(&K[k], KALG[k], hdr, "{\"iss\":\"me\",\"exp\":1600000000}");
		VTOK[k][3] = vh_ref_token(&K[k], KALG[k], hdr, "{\"iss\":\"you\",\"exp\":1700009999}");
		VTOK[k][4] = vh_ref_token(NULL, JWT_ALG_NONE, "{\"alg\":\"none\"}", "{\"iss\":\"me\"}");	/* none-with-key */
	}
	{
		char *pl = malloc(6100), hdr[64];
		int o = sprintf(pl, "{\"a\":\"");
		memset(pl + o, 'x', 6000); strcpy(pl + o + 6000, "\",\"iss\":\"me\",\"exp\":1700009999}");
		snprintf(hdr, sizeof(hdr), "{\"alg\":\"%s\",\"typ\":\"JWT\"}", vh_alg_name(KALG[0]));
		VREAL[0] = vh_ref_token(&K[0], KALG[0], hdr, "{\"iss\":\"me\",\"exp\":1.0e9,\"nbf\":1.5}");
		VREAL[1] = vh_ref_token(NULL, JWT_ALG_NONE, "{\"alg\":\"none\"}", "{\"iss\":\"me\",\"exp\":1000000000.5,\"nbf\":2e0}");
		VBIG[0] = vh_ref_token(&K[0], KALG[0], hdr, pl);
		VBIG[1] = vh_ref_token(NULL, JWT_ALG_NONE, "{\"alg\":\"none\"}", pl);
		free(pl);
	}
	for (int v = 0; v < 5; v++) VTOK[NKEY][v] = vh_ref_token(NULL, JWT_ALG_NONE, "{\"alg\":\"none\"}", v == 3 ? "{\"iss\":\"you\"}" : v == 2 ? "{\"iss\":\"me\",\"exp\":1}" : "{\"iss\":\"me\"}");

	/* scenario table */
	{
		char nm[64];
		int full = a.thorough;
		for (int k = 0; k < NKEY; k++) {
			snprintf(nm, sizeof(nm), "load:%s:priv", KSPEC[k]); add_scen(nm, T_LOAD, 0, k, 0);
			if (K[k].kind != VH_K_OCT) { snprintf(nm, sizeof(nm), "load:%s:pub", KSPEC[k]); add_scen(nm, T_LOAD, 0, k, 1); }
			snprintf(nm, sizeof(nm), "load:set-with-%s", KSPEC[k]); add_scen(nm, T_LOAD, k & 1, k, 2);
		}
		add_scen("load:strn:ec", T_LOAD, 0, 2, 3);
		add_scen("load:fromfile:ec", T_LOAD, 0, 2, 4);
		add_scen("load:fromfp:okp", T_LOAD, 1, 3, 5);
		add_scen("load:fromfile:rsa", T_LOAD, 0, 1, 4);
		add_scen("load:append-rsa-to-set-in-use", T_LOAD, 0, 1, 7);
		add_scen("load:append-ec-to-set-in-use", T_LOAD, 1, 2, 7);
		add_scen("load:append-strn-to-set-in-use", T_LOAD, 0, 2, 8);
		add_scen("generate:HS256:jwt_t-api-in-callback:p0", T_GEN, 0, 0, 4);
		add_scen("generate:ES256:jwt_t-api-in-callback:p1", T_GEN, 1, 2, 4);
		add_scen("generate:HS256:5000-char-claim:p0", T_GEN, 0, 0, 5);
		add_scen("generate:none:5000-char-claim:p1", T_GEN, 1, -1, 5);
		add_scen("generate:HS256:20000-char-claim:p1", T_GEN, 1, 0, 6);
		add_scen("generate:none:4200-char-header:p0", T_GEN, 0, -1, 7);
		add_scen("verify:HS256:6000-char-claim:p0", T_VERIFY, 0, 0, 5);
		add_scen("verify:none:6000-char-claim:p1", T_VERIFY, 1, -1, 5);
		add_scen("verify:HS256:real-valued-expired-dates:p0", T_VERIFY, 0, 0, 6);
		add_scen("verify:HS256:real-valued-expired-dates:p1", T_VERIFY, 1, 0, 6);
		add_scen("verify:none:real-valued-expired-dates:p0", T_VERIFY, 0, -1, 6);
		add_scen("config:builder", T_CONFIG, 0, 0, 0);
		add_scen("config:checker", T_CONFIG, 0, 0, 1);
		for (int p = 0; p < 2; p++) {
			snprintf(nm, sizeof(nm), "generate:none:p%d", p); add_scen(nm, T_GEN, p, -1, 1);
			for (int k = 0; k < NKEY; k++) {
				
				snprintf(nm, sizeof(nm), "generate:%s:plain:p%d", vh_alg_name(KALG[k]), p); add_scen(nm, T_GEN, p, k, 0);
				snprintf(nm, sizeof(nm), "generate:%s:claims+cb:p%d", vh_alg_name(KALG[k]), p); add_scen(nm, T_GEN, p, k, 3);
				if (k == 1) { snprintf(nm, sizeof(nm), "generate:PS256:p%d", p); add_scen(nm, T_GEN, p, k, 2); }
			}
			for (int k = 0; k < NKEY; k++)
				for (int v = 0; v < 5; v++) {
					static const char *VN[5] = { "valid", "bad-signature", "expired", "wrong-iss", "none-with-key" };
					
					snprintf(nm, sizeof(nm), "verify:%s:%s:p%d", vh_alg_name(KALG[k]), VN[v], p); add_scen(nm, T_VERIFY, p, k, v);
				}
			snprintf(nm, sizeof(nm), "verify:none:valid:p%d", p); add_scen(nm, T_VERIFY, p, -1, 0);
			snprintf(nm, sizeof(nm), "verify:none:wrong-iss:p%d", p); add_scen(nm, T_VERIFY, p, -1, 3);
		}
	}

	for (int si = 0; si < ns; si++) {
		const scen_t *s = &S[si];
		long n;
		int randomized = s->kind == T_GEN && s->key >= 0 && (KALG[s->key] == JWT_ALG_ES256 || KALG[s->key] == JWT_ALG_ES384 || s->variant == 2);
		/* baseline */
		inject_on = 1; alloc_count = 0; fail_at = -1;
		cur_scen = s->name; fail_at = 0;
		run_scenario(s, &base);
		inject_on = 0;
		quarantine_release();
		n = alloc_count;
		{
			printf("[\"B\",%d,\"%s\",%ld,%d,", si, s->name, n, base.rc); { char t[200]; snprintf(t, sizeof(t), "%.180s", base.text); vh_put_jstr(stdout, t); } printf("]\n");
		}
		if (base.reported && s->kind != T_VERIFY && !(s->kind == T_LOAD && s->variant == 2))
			vh_harness_fail("scenario %s fails without faults: %s", s->name, base.text);
		for (long k = 1; k <= n; k++) {
			long idx = (long)si * 100000 + k;
			const char *outcome = "same";
			if (!vh_mine(&a, idx)) continue;
			vh_case_begin(idx, "\"scenario\":\"%s\",\"k\":%ld,\"n\":%ld", s->name, k, n);
			fail_chain[0] = 0; jfail = NULL;
			inject_on = 1; alloc_count = 0; fail_at = k;
			run_scenario(s, &got);
			inject_on = 0;
			quarantine_release();
			if (hard_outcome) { outcome = hard_outcome; hard_outcome = NULL; }
			else if (alloc_count < k) outcome = "not-reached";
			else if (s->kind == T_VERIFY) {
				if (got.reported) outcome = "reported";
				else if (got.rc != 0) outcome = base.rc != 0 ? "same" : "reported";
				else if (base.rc != 0) outcome = "ACCEPTS-REJECTED-TOKEN";
			} else if (got.reported) outcome = "reported";
			else if (s->kind == T_GEN) {
				if (!strcmp(got.text, base.text)) outcome = "same";
				else if (randomized) {
					/* the token follows anything the callback logged ("...;") */
					const char *gt = strrchr(got.text, ';'), *bt = strrchr(base.text, ';');
					gt = gt ? gt + 1 : got.text; bt = bt ? bt + 1 : base.text;
					if ((gt - got.text) == (bt - base.text) && !strncmp(got.text, base.text, (size_t)(gt - got.text)) &&
					    same_hp(gt, bt) && vh_ref_token_valid(&K[s->key], gt, NULL)) outcome = "same";
					else outcome = "TOKEN-DIFFERS";
				}
				else outcome = "TOKEN-DIFFERS";
			} else if (strcmp(got.text, base.text)) outcome = s->kind == T_LOAD ? "LOAD-RESULT-DIFFERS" : "CONFIG-RESULT-DIFFERS";
			/* a differing result although jansson told libjwt about the failure */
			if (jfail && outcome[0] >= 'A' && outcome[0] <= 'Z') printf("[\"F\",%d,%ld,\"%s\",\"failure-reported-by:%s|%s\"", si, k, outcome, jfail, fail_chain);
			else
			printf("[\"F\",%d,%ld,\"%s\",\"%s\"", si, k, outcome, fail_chain);
			if (outcome[0] >= 'A' && outcome[0] <= 'Z') { printf(","); { char t[400]; snprintf(t, sizeof(t), "%.380s", got.text); vh_put_jstr(stdout, t); } printf(","); { char t[400]; snprintf(t, sizeof(t), "%.380s", base.text); vh_put_jstr(stdout, t); } }
			printf("]\n");
		}
	}
	quarantine_release();
	printf("[\"PT\",%lu,%lu,%lu,%lu]\n", tracked_allocs, foreign_frees, quarantined, writes_after_free);
	printf("[\"END\"]\n");
	return 0;
}

"""C08 — JWK import preserves the key and its metadata."""
import json
import vf


def judge(path):
    out = dict(n=0, distinct=set(), viol=[], samples=[], c={})
    c = out["c"]
    with open(path, errors="replace") as fh:
        for line in fh:
            if line.startswith('["EXTRA"'):
                e_ = json.loads(line)
                out["c"]["oct_keys_with_special_first_or_last_octet"] = out["c"].get("oct_keys_with_special_first_or_last_octet", 0) + e_[1]
                out["c"]["imports_as_second_element_after_a_refused_key"] = out["c"].get("imports_as_second_element_after_a_refused_key", 0) + e_[2]
                out["c"]["imports_into_a_set_whose_previous_key_was_dropped"] = out["c"].get("imports_into_a_set_whose_previous_key_was_dropped", 0) + e_[3]
                continue
            if line.startswith('["OKPLZ"'):
                out["c"]["okp_keys_with_leading_zero_octet"] = out["c"].get("okp_keys_with_leading_zero_octet", 0) + json.loads(line)[1]
                continue
            if not line.startswith('["I"'):
                continue
            try:
                ev = json.loads(line)
            except Exception:
                continue
            _, idx, key, priv, pad, extras, ok, mis, alg, has_kid, use, key_ops = ev[:12]
            out["n"] += 1
            kind = key.split(":")[0] + ("/" + key.split(":")[1] if key.startswith(("ec", "okp")) else "")
            out["distinct"].add((kind if not key.startswith("oct") else "oct", priv, pad, extras, alg, has_kid, use, min(key_ops, 255)))
            c["imports." + kind] = c.get("imports." + kind, 0) + 1
            if ok:
                c["ok"] = c.get("ok", 0) + 1
            else:
                for m in mis:
                    out["viol"].append(("mismatch:%s:%s:%s" % (kind, m, "private" if priv else "public"),
                                        "imported item differs from the key/metadata the JWK states in '%s'" % m,
                                        dict(idx=idx, key=key, private=priv, zero_pad_bytes=pad, extras=extras, mismatches=mis,
                                             jwk=ev[12] if len(ev) > 12 else None, item_error=ev[13] if len(ev) > 13 else None)))
            if len(out["samples"]) < 2:
                out["samples"].append(dict(key=key, private=priv, zero_pad_bytes=pad, extras=extras, alg=alg, use=use, key_ops=key_ops, ok=ok))
    return out


def run(tier, seed, replay):
    rep = vf.Report("C08", tier, seed)
    rep.rule = ("fresh keys (RSA 2048 and 2047 bits; thorough also 1024/2050/3072/4096; P-256/384/521, secp256k1, Ed25519, Ed448, oct 1-512 bytes), private and public "
                "forms, JWK text written by the harness with optional alg/kid/use/key_ops (every subset of the eight ops plus unknown ones), "
                "integers minimal or with 1-3 leading zero bytes, foreign and unknown extra members; the imported item's PEM is re-parsed with "
                "OpenSSL and compared component by component with the original key, metadata with what the JWK states. distinct = distinct "
                "(key type, private, padding, extras, alg, kid?, use, key_ops) tuples")
    rep.assumptions = ["component comparison via OpenSSL EVP_PKEY_get_bn_param / raw key getters on the harness' own key object",
                       "RSA private JWKs always carry the CRT members; empty kid is not generated"]
    rd = vf.run_dir("C08")
    b = vf.driver("d_c08", "asan")
    n = 12000 if tier == "thorough" else 900
    args = ["--n", n, "--seed", seed, "--tier", tier]
    if replay and (replay.get("witness") or {}).get("idx") is not None:
        args += ["--only", replay["witness"]["idx"]]
    outs, crashes = vf.run_shards(b, args, vf.NCPU, rd, timeout=3400)
    rep.crash_violations(crashes)
    for r in vf.pmap(judge, [(p,) for p in outs]):
        rep.evaluations += r["n"]
        rep.distinct |= r["distinct"]
        for k, what, wit in r["viol"]:
            rep.violation(k, what, wit)
        for s in r["samples"]:
            rep.sample(s)
        for k, v in r["c"].items():
            rep.count(k, v)
    if not replay:
        for kind in ("rsa", "ec/P-256", "ec/P-384", "ec/P-521", "ec/secp256k1", "okp/Ed25519", "okp/Ed448", "oct"):
            vf.need(rep, rep.counters.get("imports." + kind, 0) > 50, "too few %s imports" % kind)
    return rep

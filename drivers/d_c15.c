/* C15: header / claim set-get-delete as a typed map.  Sequences of operations are executed on
 *   target 0 builder headers, 1 builder claims, 2/3 jwt_t headers/claims inside a builder callback,
 *   4/5 jwt_t headers/claims inside a checker callback
 * and every operation is logged with its result and a snapshot of the whole object:
 *   ["O", seq, target, kind, type, name|null, value|null, replace, rc, verr, retval|null, snapshot_text]
 * modes: exh (all sequences of length --n over the op alphabet), rand (--n random sequences)
 */
#include "vh.h"
#include <inttypes.h>

typedef struct { char kind; int type; const char *name; const char *sval; long ival; int replace; int pretty; } op_t;
/* kind: 'S' set, 'G' get, 'D' del; type: jwt_value_type_t; for STR sval NULL means NULL pointer */
#define J JWT_VALUE_JSON
#define I JWT_VALUE_INT
#define S JWT_VALUE_STR
#define B JWT_VALUE_BOOL
static const op_t ALPHA[] = {
	{ 'S', I, "a", NULL, 1, 0 }, { 'S', I, "a", NULL, 2, 1 }, { 'S', I, "b", NULL, INT64_MIN, 0 },
	{ 'S', S, "a", "x", 0, 0 }, { 'S', S, "a", "", 0, 1 }, { 'S', S, "b", "y", 0, 0 },
	{ 'S', B, "a", NULL, 1, 0 }, { 'S', B, "a", NULL, 0, 1 }, { 'S', B, "b", NULL, 1, 1 },
	{ 'S', J, "a", "{\"k\":[1]}", 0, 0 }, { 'S', J, "a", "[1,2]", 0, 1 }, { 'S', J, "b", "{}", 0, 0 },
	{ 'S', J, NULL, "{\"a\":10,\"c\":\"z\"}", 0, 0 }, { 'S', J, NULL, "{\"a\":10,\"c\":\"z\"}", 0, 1 }, { 'S', J, "", "{\"b\":null,\"a\":{\"n\":1},\"\":7}", 0, 1 },
	{ 'S', J, "a", "{", 0, 1 }, { 'S', J, NULL, "5", 0, 1 }, { 'S', J, "a", "{\"x\":1,\"x\":2}", 0, 1 }, { 'S', J, NULL, "[1]", 0, 1 },
	{ 'S', I, "", NULL, 7, 1 }, { 'S', I, NULL, NULL, 7, 1 }, { 'S', S, "", "v", 0, 1 }, { 'S', S, "a", NULL, 0, 1 }, { 'S', B, NULL, NULL, 1, 1 },
	{ 'G', I, "a", 0, 0, 0 }, { 'G', S, "a", 0, 0, 0 }, { 'G', B, "a", 0, 0, 0 }, { 'G', J, "a", 0, 0, 0 }, { 'G', J, NULL, 0, 0, 0 },
	{ 'G', I, "b", 0, 0, 0 }, { 'G', S, "c", 0, 0, 0 }, { 'G', B, "b", 0, 0, 0 }, { 'G', J, "b", 0, 0, 0 }, { 'G', I, "", 0, 0, 0 },
	{ 'D', 0, "a", 0, 0, 0 }, { 'D', 0, "b", 0, 0, 0 }, { 'D', 0, NULL, 0, 0, 0 }, { 'D', 0, "", 0, 0, 0 }, { 'D', 0, "c", 0, 0, 0 },
	/* a registered name holding a one-element array (RFC 7519 allows aud in both shapes): typed reads stay type-strict */
	{ 'S', J, "aud", "[\"x\"]", 0, 1 }, { 'G', S, "aud", 0, 0, 0 }, { 'G', J, "aud", 0, 0, 0 },
};
#define NALPHA ((int)(sizeof(ALPHA) / sizeof(ALPHA[0])))

static vh_rng_t rng;
static int quiet;	/* execute without logging (prefix of a full-length exhaustive sequence: judged already as a shorter sequence) */
static long cur_seq;
static int cur_target;
static unsigned long n_ops, n_near, n_reused;

typedef struct {
	jwt_value_error_t (*set)(void *, jwt_value_t *);
	jwt_value_error_t (*get)(void *, jwt_value_t *);
	jwt_value_error_t (*del)(void *, const char *);
	void *obj;
} tgt_t;

static jwt_value_error_t bhs(void *o, jwt_value_t *v) { return jwt_builder_header_set(o, v); }
static jwt_value_error_t bhg(void *o, jwt_value_t *v) { return jwt_builder_header_get(o, v); }
static jwt_value_error_t bhd(void *o, const char *n) { return jwt_builder_header_del(o, n); }
static jwt_value_error_t bcs(void *o, jwt_value_t *v) { return jwt_builder_claim_set(o, v); }
static jwt_value_error_t bcg(void *o, jwt_value_t *v) { return jwt_builder_claim_get(o, v); }
static jwt_value_error_t bcd(void *o, const char *n) { return jwt_builder_claim_del(o, n); }
static jwt_value_error_t jhs(void *o, jwt_value_t *v) { return jwt_header_set(o, v); }
static jwt_value_error_t jhg(void *o, jwt_value_t *v) { return jwt_header_get(o, v); }
static jwt_value_error_t jhd(void *o, const char *n) { return jwt_header_del(o, n); }
static jwt_value_error_t jcs(void *o, jwt_value_t *v) { return jwt_claim_set(o, v); }
static jwt_value_error_t jcg(void *o, jwt_value_t *v) { return jwt_claim_get(o, v); }
static jwt_value_error_t jcd(void *o, const char *n) { return jwt_claim_del(o, n); }

static char *last_snap;	/* previous snapshot of this sequence: an unchanged object is logged as 1 */
static void snapshot(const tgt_t *t)
{
	jwt_value_t v;
	jwt_set_GET_JSON(&v, NULL);
	if (t->get(t->obj, &v) == JWT_VALUE_ERR_NONE && v.json_val) {
		if (last_snap && !strcmp(last_snap, v.json_val)) { fputs("1", stdout); free(v.json_val); }
		else { vh_put_jstr(stdout, v.json_val); free(last_snap); last_snap = v.json_val; }
	} else { fputs("null", stdout); free(last_snap); last_snap = NULL; }
}

/* an application reuses one jwt_value_t for many calls: before each set-up macro the struct holds leftovers (all ones, a pattern, zeros) */
#define POISON() ((n_ops % 3) == 0 ? 0xff : (n_ops % 3) == 1 ? 0xa5 : 0)
static void do_op(const tgt_t *t, const op_t *op)
{
	jwt_value_t v;
	jwt_value_error_t rc;
	n_ops++;
	if (quiet) {
		memset(&v, POISON(), sizeof(v));
		if (op->kind == 'S') {
			switch (op->type) {
			case I: jwt_set_SET_INT(&v, op->name, op->ival); break;
			case S: jwt_set_SET_STR(&v, op->name, op->sval); break;
			case B: jwt_set_SET_BOOL(&v, op->name, (int)op->ival); break;
			default: jwt_set_SET_JSON(&v, op->name, (char *)op->sval); break;
			}
			v.replace = op->replace;
			t->set(t->obj, &v);
		} else if (op->kind == 'G') {
			switch (op->type) {
			case I: jwt_set_GET_INT(&v, op->name); break;
			case S: jwt_set_GET_STR(&v, op->name); break;
			case B: jwt_set_GET_BOOL(&v, op->name); break;
			default: jwt_set_GET_JSON(&v, op->name); v.pretty = op->pretty; break;
			}
			if (t->get(t->obj, &v) == JWT_VALUE_ERR_NONE && op->type == J && v.json_val) free(v.json_val);
		} else
			t->del(t->obj, op->name);
		return;
	}
	printf("[\"O\",%ld,%d,\"%c\",%d,", cur_seq, cur_target, op->kind, op->type);
	vh_put_jstr(stdout, op->name);
	printf(",");
	memset(&v, POISON(), sizeof(v));	/* what an earlier use left in the struct: the set-up macros are the whole contract */
	if (op->kind == 'S') {
		switch (op->type) {
		case I: jwt_set_SET_INT(&v, op->name, op->ival); printf("%ld", op->ival); break;
		case S: jwt_set_SET_STR(&v, op->name, op->sval); vh_put_jstr(stdout, op->sval); break;
		case B: jwt_set_SET_BOOL(&v, op->name, (int)op->ival); printf("%ld", op->ival); break;
		default: jwt_set_SET_JSON(&v, op->name, (char *)op->sval); vh_put_jstr(stdout, op->sval); break;
		}
		v.replace = op->replace;
		rc = t->set(t->obj, &v);
		printf(",%d,%d,%d,null,", op->replace, (int)rc, (int)v.error);
		if (rc == JWT_VALUE_ERR_EXIST && !op->replace && op->name && op->name[0] && (n_ops & 1)) {
			/* the application's reaction to EXIST: the very same request again with the replace flag switched on (the struct is not set
			 * up anew; what the refused call left in it, the error included, is still there) */
			snapshot(t);
			printf("]\n[\"O\",%ld,%d,\"S\",%d,", cur_seq, cur_target, op->type);
			vh_put_jstr(stdout, op->name); printf(",");
			switch (op->type) {
			case I: printf("%ld", op->ival); break;
			case S: vh_put_jstr(stdout, op->sval); break;
			case B: printf("%ld", op->ival); break;
			default: vh_put_jstr(stdout, op->sval); break;
			}
			v.replace = 1;
			rc = t->set(t->obj, &v);
			printf(",1,%d,%d,null,", (int)rc, (int)v.error);
		}
	} else if (op->kind == 'G') {
		switch (op->type) {
		case I: jwt_set_GET_INT(&v, op->name); break;
		case S: jwt_set_GET_STR(&v, op->name); break;
		case B: jwt_set_GET_BOOL(&v, op->name); break;
		default: jwt_set_GET_JSON(&v, op->name); v.pretty = op->pretty; break;
		}
		if ((n_ops & 3) == 3) {
			/* the same struct was used a moment ago to ask for a member that is not there, and was refused: the application now points it
			 * at the member it wants without running the set-up macro again.  The refusal's code must not outlive the next call */
			const char *want = v.name;
			v.name = "\x01no such member";
			(void)t->get(t->obj, &v);
			v.name = want;
			n_reused++;
		}
		rc = t->get(t->obj, &v);
		printf("null,0,%d,%d,", (int)rc, (int)v.error);
		if (rc != JWT_VALUE_ERR_NONE) fputs("null", stdout);
		else switch (op->type) {
		case I: printf("%ld", v.int_val); break;
		case S: vh_put_jstr(stdout, v.str_val); break;
		case B: printf("%d", v.bool_val); break;
		default: vh_put_jstr(stdout, v.json_val); break;
		}
		if (op->type == J && v.json_val) free(v.json_val);
		printf(",");
	} else {
		rc = t->del(t->obj, op->name);
		printf("null,0,%d,%d,null,", (int)rc, (int)rc);
	}
	snapshot(t);
	printf("]\n");
}

/* random op with boundary values */
static char bigstr[70000];
static void random_op(op_t *op)
{
	static const char *NAMES[] = { "a", "b", "c", "exp", "a b", "\xc3\xa9", "", NULL, "alg", "nested", "r", "t", "n", "i",
		"aud", "iss", "sub", "jti", "kid", "typ", "nbf", "iat", "crit", "cty" };	/* registered names: no name gets a typed read of its own */
#define NNAMES 24
	static const char *JS[] = { "{\"a\":1}", "{\"b\":{\"c\":[1,2,{\"d\":null}]},\"a\":\"s\"}", "[]", "[1,\"two\",3.5]", "{}", "{\"r\":1.5,\"t\":true,\"n\":null}",
		"{\"a\":9223372036854775807,\"b\":-9223372036854775808}", "{", "", "nul", "5", "\"s\"", "{\"x\":1,\"x\":2}", "{\"a\":{\"a\":{\"a\":{}}}}",
		"{\"exp\":1,\"alg\":\"none\"}", "[[[[[[]]]]]]", "{\"a\":1} x", " {\"c\":2} ",
		"{\"r\":1.0,\"i\":3,\"t\":false,\"n\":null}", "{\"r\":-0.0,\"n\":[],\"i\":\"3\"}", "{\"t\":1,\"r\":1e2,\"i\":0}", "{\"\":\"empty-name\",\"a\":{\"\":[]}}",
		"[\"x\"]", "[\"x\",\"y\"]", "[7]", "[true]", "{\"aud\":[\"x\"],\"iss\":[\"me\"],\"kid\":[\"k\"],\"exp\":[1],\"typ\":[\"JWT\"]}", "{\"aud\":\"x\",\"sub\":7,\"jti\":true,\"iat\":\"1\"}",
		/* reals that need 16-17 significant digits, beyond-2^53 integers, exponents: every read (compact and pretty) gives the stored number back */
		"{\"r\":0.30000000000000004,\"pi\":3.141592653589793,\"e\":1.0000000000000002}", "[0.1,1e300,5e-324,9007199254740993,1.7976931348623157e308]", "{\"a\":{\"third\":0.3333333333333333,\"neg\":-2.2250738585072014e-308}}" };
#define NJS 31
	static const long INTS[] = { 0, 1, -1, INT64_MAX, INT64_MIN, 2147483648L, 1700000000L };
	static const char *STRS[] = { "", "x", "a longer string value", "\xc3\xa9\xf0\x9f\x98\x80", "with \"quotes\" and \\ backslash", "line\nbreak\ttab", NULL, bigstr };
	unsigned k = (unsigned)vh_below(&rng, 10);
	memset(op, 0, sizeof(*op));
	op->name = NAMES[vh_below(&rng, NNAMES)];
	if (vh_below(&rng, 3)) op->name = NAMES[vh_below(&rng, 3)];	/* collide often */
	op->replace = (int)vh_below(&rng, 2);
	if (k < 5) {
		op->kind = 'S';
		op->type = 1 + (int)vh_below(&rng, 4);
		switch (op->type) {
		case I: op->ival = vh_below(&rng, 2) ? INTS[vh_below(&rng, 7)] : (long)vh_rand(&rng); break;
		case S: op->sval = STRS[vh_below(&rng, 7)]; if (vh_below(&rng, 64) == 0) op->sval = bigstr; break;
		case B: { static const long BV[] = { 0, 1, 0, 1, 2, -1, 256, 65536, INT32_MIN }; op->ival = BV[vh_below(&rng, 9)]; } break;
		default: op->sval = JS[vh_below(&rng, NJS)]; break;
		}
	} else if (k < 8) {
		op->kind = 'G';
		op->type = 1 + (int)vh_below(&rng, 4);
		op->pretty = (int)vh_below(&rng, 3) == 0;
	} else
		op->kind = 'D';
}

static int seq_len;
static const op_t *seq_ops;
static op_t rnd_ops[64];

static int quiet_prefix;	/* number of leading ops to run unlogged */
static void run_on(tgt_t *t)
{
	for (int i = 0; i < seq_len; i++) {
		quiet = i < quiet_prefix;
		do_op(t, &seq_ops[i]);
	}
	quiet = 0;
}

static int cb_run(jwt_t *jwt, jwt_config_t *cfg)
{
	tgt_t t;
	(void)cfg;
	t.obj = jwt;
	if (cur_target == 2 || cur_target == 4) { t.set = jhs; t.get = jhg; t.del = jhd; }
	else { t.set = jcs; t.get = jcg; t.del = jcd; }
	run_on(&t);
	return 1;	/* abort generate/verify: we only wanted the jwt_t */
}

static void run_seq(long seq, int target, const op_t *ops, int n)
{
	tgt_t t;
	cur_seq = seq; cur_target = target; seq_ops = ops; seq_len = n;
	printf("[\"N\",%ld,%d]\n", seq, target);
	free(last_snap); last_snap = NULL;
	if (target <= 3) {
		jwt_builder_t *b = jwt_builder_new();
		if (!b) vh_harness_fail("builder_new");
		jwt_builder_enable_iat(b, 0);
		if (target == 0) { t.obj = b; t.set = bhs; t.get = bhg; t.del = bhd; run_on(&t); }
		else if (target == 1) { t.obj = b; t.set = bcs; t.get = bcg; t.del = bcd; run_on(&t); }
		else {
			/* the builder holds values of every type; the callback edits only the per-token jwt_t, so the builder's own
			 * maps must read the same before and after (the token's maps start as copies of these) */
			char *tok, *hb, *cb, *ha, *ca;
			jwt_value_t v;
			jwt_set_SET_INT(&v, "a", 5); jwt_builder_header_set(b, &v); jwt_set_SET_INT(&v, "a", 5); jwt_builder_claim_set(b, &v);
			jwt_set_SET_STR(&v, "b", "s"); jwt_builder_header_set(b, &v); jwt_set_SET_STR(&v, "b", "s"); jwt_builder_claim_set(b, &v);
			jwt_set_SET_JSON(&v, "n", "{\"k\":[1,2]}"); jwt_builder_header_set(b, &v); jwt_set_SET_JSON(&v, "n", "{\"k\":[1,2]}"); jwt_builder_claim_set(b, &v);
			jwt_set_GET_JSON(&v, NULL); jwt_builder_header_get(b, &v); hb = v.json_val;
			jwt_set_GET_JSON(&v, NULL); jwt_builder_claim_get(b, &v); cb = v.json_val;
			jwt_builder_setcb(b, cb_run, NULL); tok = jwt_builder_generate(b); free(tok);
			jwt_set_GET_JSON(&v, NULL); jwt_builder_header_get(b, &v); ha = v.json_val;
			jwt_set_GET_JSON(&v, NULL); jwt_builder_claim_get(b, &v); ca = v.json_val;
			printf("[\"BB\",%ld,%d,", seq, target); vh_put_jstr(stdout, hb); printf(","); vh_put_jstr(stdout, cb); printf(",");
			vh_put_jstr(stdout, ha); printf(","); vh_put_jstr(stdout, ca); printf("]\n");
			free(hb); free(cb); free(ha); free(ca);
		}
		jwt_builder_free(b);
	} else {
		jwt_checker_t *c = jwt_checker_new();
		jwt_checker_setcb(c, cb_run, NULL);
		/* header {"alg":"none"} payload {} */
		jwt_checker_verify(c, "eyJhbGciOiJub25lIn0.e30.");
		jwt_checker_free(c);
	}
}

int main(int argc, char **argv)
{
	vh_args_t a;
	vh_parse_args(argc, argv, &a);
	vh_alloc_install();	/* foreign frees and writes after free, also inside the uninstrumented JSON library */
	memset(bigstr, 'L', 65536); bigstr[65536] = 0;
	if (a.shard == 0 && a.start == 0) printf("[\"ALPHA\",%d]\n", NALPHA);
	/* the alphabet itself, so that the monitor can replay unlogged prefixes: ["A", index, kind, type, name, value, replace] */
	for (int i = 0; i < NALPHA; i++) {
		const op_t *op = &ALPHA[i];
		printf("[\"A\",%d,\"%c\",%d,", i, op->kind, op->type);
		vh_put_jstr(stdout, op->name); printf(",");
		if (op->kind == 'S' && (op->type == I || op->type == B)) printf("%ld", op->ival);
		else if (op->kind == 'S') vh_put_jstr(stdout, op->sval);
		else printf("null");
		printf(",%d]\n", op->replace);
	}
	if (!strcmp(a.mode, "exh")) {
		int L = (int)a.n;
		long total = 1, seq = 0;
		for (int i = 0; i < L; i++) total *= NALPHA;
		for (int len = 1; len <= L; len++) {
			long cnt = 1;
			for (int i = 0; i < len; i++) cnt *= NALPHA;
			for (long v = 0; v < cnt; v++, seq++) {
				op_t ops[8];
				long t = v;
				if (!vh_mine(&a, seq)) continue;
				for (int i = 0; i < len; i++) { ops[i] = ALPHA[t % NALPHA]; t /= NALPHA; }
				vh_case_begin(seq, "\"mode\":\"exh\",\"len\":%d,\"v\":%ld", len, v);
				/* full-length sequences on builder claims; shorter ones on every target */
				if (len < L || L <= 2) { for (int tg = 0; tg < 6; tg++) run_seq(seq, tg, ops, len); }
				else {
					/* full length: the first len-1 operations were judged as a sequence of their own; they are executed unlogged
					 * and the monitor replays them from the alphabet (["Q", seq, target, [indexes]]) */
					long t2 = v;
					printf("[\"Q\",%ld,%d,[", seq, (int)(v % 2));
					for (int i = 0; i < len - 1; i++) { printf("%s%ld", i ? "," : "", t2 % NALPHA); t2 /= NALPHA; }
					printf("]]\n");
					quiet_prefix = len - 1;
					run_seq(seq, (int)(v % 2), ops, len);
					quiet_prefix = 0;
				}
			}
		}
		(void)total;
	} else if (!strcmp(a.mode, "size")) {
		/* size sweep: one string member grows so that the text of the whole object, of the named member and of their pretty forms
		 * takes every length in a window around the sizes an implementation plausibly uses for fixed buffers */
		static const int M[] = { 16, 32, 64, 128, 256, 512, 1000, 1024, 2048, 4096, 8192, 16384, 32768, 65536 };
		long seq = 0;
		for (size_t mi = 0; mi < sizeof(M) / sizeof(M[0]); mi++)
			for (int N = M[mi] - 18; N <= M[mi] + 2; N++)
				for (int tg = 0; tg < 6; tg++, seq++) {
					op_t ops[8];
					char *s, *js;
					int n = 0;
					if (N < 0 || !vh_mine(&a, seq)) continue;
					if (M[mi] > 8192 && tg != 1 && tg != 5 && tg != (int)(mi % 6)) continue;
					s = malloc((size_t)N + 1); memset(s, 'x', (size_t)N); s[N] = 0;
					js = malloc((size_t)N + 16); sprintf(js, "{\"q\":[\"%s\"]}", s);
					memset(ops, 0, sizeof(ops));
					ops[n].kind = 'S'; ops[n].type = S; ops[n].name = "p"; ops[n].sval = s; ops[n].replace = 1; n++;
					ops[n].kind = 'G'; ops[n].type = J; ops[n].name = NULL; n++;
					ops[n].kind = 'G'; ops[n].type = J; ops[n].name = "p"; n++;
					ops[n].kind = 'G'; ops[n].type = S; ops[n].name = "p"; n++;
					ops[n].kind = 'G'; ops[n].type = J; ops[n].name = NULL; ops[n].pretty = 1; n++;
					ops[n].kind = 'D'; ops[n].name = "p"; n++;
					ops[n].kind = 'S'; ops[n].type = J; ops[n].name = NULL; ops[n].sval = js; ops[n].replace = 1; n++;
					ops[n].kind = 'G'; ops[n].type = J; ops[n].name = "q"; n++;
					vh_case_begin(seq, "\"mode\":\"size\",\"N\":%d", N);
					run_seq(3000000 + seq, tg, ops, n);
					free(s); free(js);
				}
	} else {
		for (long s = 0; s < a.n; s++) {
			int n;
			if (!vh_mine(&a, s)) continue;
			vh_rng_seed(&rng, a.seed, 2000000 + (uint64_t)s);
			n = 2 + (int)vh_below(&rng, 39);
			for (int i = 0; i < n; i++) random_op(&rnd_ops[i]);
			if (n >= 4 && vh_below(&rng, 5) == 0) {
				/* a member that holds a number, then a set-with-replace of an integer that is a near miss of it: equal as a double but
				 * not as a JSON value (1.0 / 1, -0.0 / 0), or a neighbour beyond 2^53 that rounds to the same double.  Replace
				 * overwrites, whatever was there: the typed read that follows gives the new integer */
				static const struct { const char *js, *name; long v; } NEAR[] = {
					{ "{\"a\":1.0}", "a", 1 }, { "{\"a\":3.0,\"b\":3}", "a", 3 }, { "{\"b\":-0.0}", "b", 0 },
					{ "{\"a\":9223372036854775807}", "a", INT64_MAX - 1 }, { "{\"b\":9007199254740993}", "b", 9007199254740992L },
					{ "{\"a\":1e2}", "a", 100 }, { "{\"c\":2147483648.0}", "c", 2147483648L }, { "{\"exp\":1700000000.0}", "exp", 1700000000L },
					{ "{\"a\":-9223372036854775808}", "a", INT64_MIN + 1 }, { "{\"a\":9007199254740992}", "a", 9007199254740993L },
					{ "{\"b\":true}", "b", 1 }, { "{\"a\":\"7\"}", "a", 7 } };
				int e = (int)vh_below(&rng, sizeof(NEAR) / sizeof(NEAR[0]));
				int p = (int)vh_below(&rng, (uint64_t)n - 2), q = p + 1 + (int)vh_below(&rng, (uint64_t)(n - p - 2));
				memset(&rnd_ops[p], 0, sizeof(op_t)); memset(&rnd_ops[q], 0, sizeof(op_t)); memset(&rnd_ops[q + 1], 0, sizeof(op_t));
				rnd_ops[p].kind = 'S'; rnd_ops[p].type = J; rnd_ops[p].name = NULL; rnd_ops[p].sval = NEAR[e].js; rnd_ops[p].replace = 1;
				rnd_ops[q].kind = 'S'; rnd_ops[q].type = I; rnd_ops[q].name = NEAR[e].name; rnd_ops[q].ival = NEAR[e].v; rnd_ops[q].replace = 1;
				rnd_ops[q + 1].kind = 'G'; rnd_ops[q + 1].type = (int)vh_below(&rng, 2) ? I : J; rnd_ops[q + 1].name = NEAR[e].name;
				n_near++;
			}
			vh_case_begin(s, "\"mode\":\"rand\",\"len\":%d", n);
			run_seq(s, (int)vh_below(&rng, 6), rnd_ops, n);
		}
	}
	printf("[\"STATS\",%lu,%lu,%lu]\n", n_ops, n_near, n_reused);
	return 0;
}

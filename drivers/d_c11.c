/* C11: base64url codec — online oracle against the arithmetic reference codec.
 * modes: enc (all strings len 0..3), grp4 (4-char groups through base64_decode),
 *        cls (class-alphabet strings through jwt_base64uri_decode), rand (long random strings) */
#include "vh.h"
#include <pthread.h>

int jwt_base64uri_encode(char **_dst, const char *plain, int plain_len);
void *jwt_base64uri_decode(const char *src, int *ret_len);
unsigned int base64_decode(const char *in, unsigned int inlen, unsigned char *out);
unsigned int base64_encode(const unsigned char *in, unsigned int inlen, char *out);

static unsigned long n_eval, n_judged, n_unjudged, n_reject_ok, n_roundtrip, n_viol;
static unsigned long cls_seen[8];
static int n_samples;
static int desc[4096], n_desc;

static void viol(const char *key, const char *what, const void *in, size_t inlen, const void *got, long gotlen)
{
	n_viol++;
	if (n_viol > 20)
		return;
	printf("{\"viol\":\"%s\",\"what\":\"%s\",\"in\":", key, what);
	vh_put_hex(stdout, in, inlen);
	printf(",\"got_len\":%ld,\"got\":", gotlen);
	vh_put_hex(stdout, got ? got : "", got && gotlen > 0 ? (size_t)gotlen : 0);
	printf("}\n");
}
static void sample(const char *kind, const void *in, size_t inlen, const char *verdict)
{
	if (n_samples >= 6)
		return;
	n_samples++;
	printf("{\"sample\":\"%s\",\"in\":", kind);
	vh_put_hex(stdout, in, inlen);
	printf(",\"verdict\":\"%s\"}\n", verdict);
}

/* encode x (n bytes) with libjwt, compare with reference, decode back */
static void check_enc(const unsigned char *x0, size_t n)
{
	char *dst = NULL, ref[300000 * 4 / 3 + 16];
	int len, dl = -7;
	size_t rl = vh_b64u_enc(x0, n, ref);
	/* exact-size heap copy without terminator, ending flush with the block: ASan sees a one-byte over-read */
	unsigned char *blk = malloc(n ? n : 1), *x = n ? blk : blk + 1;
	if (n) memcpy(blk, x0, n);
	n_eval++;
	len = jwt_base64uri_encode(&dst, (const char *)x, (int)n);
	if (len < 0 || !dst) { viol("enc-fail", "encoder failed", x0, n, NULL, len); free(blk); return; }
	n_judged++;
	if (strlen(dst) != rl || memcmp(dst, ref, rl))	/* the int return value is internal (padded length); only the text is judged */
		viol("enc-mismatch", "encoder output differs from RFC 4648 s5 unpadded", x, n, dst, (long)strlen(dst));
	if (n > 0) {
		unsigned char *back = jwt_base64uri_decode(dst, &dl);
		if (!back || dl != (int)n || memcmp(back, x, n))
			viol("roundtrip", "decode(encode(x)) != x", x, n, back, back ? dl : -1);
		else
			n_roundtrip++;
		free(back);
	}
	free(dst);
	free(blk);
}

/* judge jwt_base64uri_decode on NUL-free text s (n bytes) */
static void check_dec(const char *s, size_t n)
{
	static unsigned char refb[300000];
	int dl = -7;
	long rl = vh_b64u_dec(s, n, refb);
	unsigned char *got;
	char *copy = malloc(n + 1);	/* exact-size heap copy: ASan sees over-reads */
	memcpy(copy, s, n);
	copy[n] = 0;
	n_eval++;
	got = jwt_base64uri_decode(copy, &dl);
	if (rl < 0) {
		/* foreign byte before '=' or length 1 mod 4: must be rejected */
		n_judged++;
		if (got)
			viol("accept-foreign", "decoder returned data for text with foreign byte / bad length", s, n, got, dl);
		else
			n_reject_ok++;
		cls_seen[0]++;
	} else if (memchr(s, '=', n) == NULL && rl > 0) {
		/* pure alphabet text: canonical iff re-encoding gives the same text (modulo alphabet) */
		static char re[300000 * 4 / 3 + 16];
		size_t el = vh_b64u_enc(refb, (size_t)rl, re);
		int canon = el == n;
		for (size_t i = 0; canon && i < n; i++) {
			char c = s[i] == '+' ? '-' : s[i] == '/' ? '_' : s[i];
			if (c != re[i]) canon = 0;
		}
		if (canon) {
			n_judged++;
			cls_seen[1]++;
			if (!got || dl != rl || memcmp(got, refb, (size_t)rl))
				viol("dec-mismatch", "decoder output differs from reference on canonical text", s, n, got, got ? dl : -1);
			else
				n_roundtrip++;
		} else {
			n_unjudged++;
			cls_seen[2]++;
		}
	} else {
		n_unjudged++;	/* text with '=' or empty decode: statement silent */
		cls_seen[3]++;
	}
	free(got);
	free(copy);
}

static pthread_barrier_t cold_barrier;
static void *cold_worker(void *arg)
{
	struct { unsigned char bin[3001]; char txt[4100]; size_t tl; int bad; } *w = arg;
	int dl = -1;
	unsigned char *got;
	char *enc = NULL;
	pthread_barrier_wait(&cold_barrier);
	got = jwt_base64uri_decode(w->txt, &dl);
	if (!got || dl != (int)sizeof(w->bin) || memcmp(got, w->bin, sizeof(w->bin))) w->bad |= 1;
	free(got);
	if (jwt_base64uri_encode(&enc, (const char *)w->bin, (int)sizeof(w->bin)) < 0 || !enc || strcmp(enc, w->txt)) w->bad |= 2;
	free(enc);
	got = jwt_base64uri_decode("QUJD", &dl);
	if (!got || dl != 3 || memcmp(got, "ABC", 3)) w->bad |= 4;
	free(got);
	return NULL;
}

int main(int argc, char **argv)
{
	vh_args_t a;
	vh_rng_t r;
	vh_parse_args(argc, argv, &a);
	vh_rng_seed(&r, a.seed, 1000 + (uint64_t)a.shard);

	if (!strcmp(a.mode, "enc")) {
		/* lengths 0,1,2 complete (shard 0 only), length 3: complete (thorough) or sampled n */
		unsigned char x[3];
		/* every length 0..3072 once per shard with random bytes (block-size corners of the encoder) */
		for (size_t n = 0; n <= 3072; n++) {
			static unsigned char big[3072];
			if ((n & 0xff) == 0) vh_case_begin((long)n, "\"mode\":\"enc-sweep\",\"len\":%zu", n);
			vh_rand_bytes(&r, big, n);
			check_enc(big, n);
		}
		if (a.shard == 0) {
			vh_case_begin(0, "\"mode\":\"enc\",\"len\":\"0-2\"");
			check_enc(x, 0);
			for (int b0 = 0; b0 < 256; b0++) { x[0] = (unsigned char)b0; check_enc(x, 1); }
			for (int v = 0; v < 65536; v++) { x[0] = (unsigned char)(v >> 8); x[1] = (unsigned char)v; check_enc(x, 2); }
		}
		if (a.n <= 0) {
			for (long v = a.shard; v < (1L << 24); v += a.nshards) {
				x[0] = (unsigned char)(v >> 16); x[1] = (unsigned char)(v >> 8); x[2] = (unsigned char)v;
				vh_case_begin(v, "\"mode\":\"enc\",\"v\":%ld", v);
				check_enc(x, 3);
			}
		} else {
			uint64_t stride, off;
			vh_rng_seed(&r, a.seed, 78);
			stride = (vh_rand(&r) | 1) & 0xffffff; off = vh_rand(&r) & 0xffffff;
			for (long i = a.shard; i < a.n && i < (1L << 24); i += a.nshards) {
				uint64_t v = (off + (uint64_t)i * stride) & 0xffffff;
				x[0] = (unsigned char)(v >> 16); x[1] = (unsigned char)(v >> 8); x[2] = (unsigned char)v;
				vh_case_begin(i, "\"mode\":\"enc3s\",\"x\":\"%02x%02x%02x\"", x[0], x[1], x[2]);
				check_enc(x, 3);
			}
		}
		sample("enc", x, 3, "ok");
	} else if (!strcmp(a.mode, "grp4") || !strcmp(a.mode, "grp4a")) {
		/* raw base64_decode on 4-byte groups, complete 2^32 (n<=0) or n sampled */
		/* grp4: all 2^32 byte groups (n<=0) or n of them along a full-period stride (distinct by construction);
		 * grp4a: all 70^4 groups over an alphabet-heavy 70-symbol set */
		static const char A[] = "ABCDEFGHIJKLMNOPQRSTUVWXYZabcdefghijklmnopqrstuvwxyz0123456789+/=-_.*\x7f";
		int alpha = !strcmp(a.mode, "grp4a");
		uint64_t space = alpha ? 70ULL * 70 * 70 * 70 : (1ULL << 32);
		uint64_t total = (!alpha && a.n > 0) ? (uint64_t)a.n : space;
		uint64_t stride = alpha ? 1 : ((vh_rand(&r) | 1) & 0xffffffffULL), off = alpha ? 0 : (vh_rand(&r) & 0xffffffffULL);
		unsigned char *buf = malloc(4 + 8);	/* libjwt gives BASE64_DECODE_OUT_SIZE(4)+1 = 4 bytes */
		if (a.n <= 0) { stride = 1; off = 0; }
		if (!alpha) { vh_rng_seed(&r, a.seed, 77); stride = a.n > 0 ? ((vh_rand(&r) | 1) & 0xffffffffULL) : 1; off = a.n > 0 ? (vh_rand(&r) & 0xffffffffULL) : 0; }
		for (uint64_t it = (uint64_t)a.shard; it < total; it += (uint64_t)a.nshards) {
			unsigned char g[4], ref[4];
			unsigned int got;
			int std = 1, foreign_before_pad = 0, seen_pad = 0;
			if (alpha) {
				uint64_t t = it;
				for (int i = 0; i < 4; i++) { g[i] = (unsigned char)A[t % 70]; t /= 70; }
			} else {
				uint64_t v = (off + it * stride) & 0xffffffffULL;
				g[0] = (unsigned char)(v >> 24); g[1] = (unsigned char)(v >> 16); g[2] = (unsigned char)(v >> 8); g[3] = (unsigned char)v;
			}
			if (((it / (uint64_t)a.nshards) & 0xffff) == 0)
				vh_case_begin((long)it, "\"mode\":\"grp4\",\"g\":\"%02x%02x%02x%02x\"", g[0], g[1], g[2], g[3]);
			memset(buf, 0xA5, 12);
			n_eval++;
			got = base64_decode((const char *)g, 4, buf);
			for (int i = 4; i < 12; i++)
				if (buf[i] != 0xA5) { viol("grp4-overflow", "base64_decode wrote past 4 bytes", g, 4, buf, 12); break; }
			for (int i = 0; i < 4; i++) {
				unsigned char c = g[i];
				int isstd = (c >= 'A' && c <= 'Z') || (c >= 'a' && c <= 'z') || (c >= '0' && c <= '9') || c == '+' || c == '/';
				if (c == '=') { seen_pad = 1; std = 0; continue; }
				if (!isstd) {
					std = 0;
					if (!seen_pad && c != '-' && c != '_')
						foreign_before_pad = 1;
				}
			}
			if (std) {
				long rl = vh_b64u_dec((const char *)g, 4, ref);
				n_judged++; cls_seen[1]++;
				if (rl != 3 || got != 3 || memcmp(buf, ref, 3))
					viol("grp4-mismatch", "base64_decode differs from reference on alphabet group", g, 4, buf, got);
			} else if (foreign_before_pad) {
				n_judged++; cls_seen[0]++;
				if (got != 0)
					viol("grp4-accept-foreign", "base64_decode accepted a foreign byte before padding", g, 4, buf, got);
				else
					n_reject_ok++;
			} else {
				/* padded tails: judge the canonical ones XX== / XXX= */
				int t2 = g[2] == '=' && g[3] == '=' && g[0] != '=' && g[1] != '=' && !foreign_before_pad && g[0] != '-' && g[0] != '_' && g[1] != '-' && g[1] != '_';
				int t3 = g[3] == '=' && g[0] != '=' && g[1] != '=' && g[2] != '=' && g[0] != '-' && g[0] != '_' && g[1] != '-' && g[1] != '_' && g[2] != '-' && g[2] != '_';
				if (t2 || t3) {
					long rl = vh_b64u_dec((const char *)g, 4, ref);
					char re[8];
					size_t el = vh_b64u_enc(ref, (size_t)rl, re);
					int canon = (el == (size_t)(t2 ? 2 : 3));
					for (size_t i = 0; canon && i < el; i++) {
						char c = g[i] == '+' ? '-' : g[i] == '/' ? '_' : (char)g[i];
						if (c != re[i]) canon = 0;
					}
					if (canon) {
						n_judged++; cls_seen[4]++;
						if ((long)got != rl || memcmp(buf, ref, (size_t)rl))
							viol("grp4-tail-mismatch", "base64_decode differs on canonical padded tail", g, 4, buf, got);
					} else { n_unjudged++; cls_seen[2]++; }
				} else { n_unjudged++; cls_seen[3]++; }
			}
		}
		free(buf);
	} else if (!strcmp(a.mode, "cls")) {
		/* all strings of length 1..L over a 10-symbol class alphabet */
		static const unsigned char SYM[10] = { 'A', '_', '-', '+', '/', '=', '.', 0x01, 0x80, 'z' };
		int L = a.n > 0 ? (int)a.n : 6;
		long idx = 0;
		for (int len = 1; len <= L; len++) {
			long total = 1;
			for (int i = 0; i < len; i++) total *= 10;
			for (long v = 0; v < total; v++, idx++) {
				char s[16];
				long t = v;
				if (!vh_mine(&a, idx)) continue;
				for (int i = 0; i < len; i++) { s[i] = (char)SYM[t % 10]; t /= 10; }
				if ((idx & 0xfff) == 0)
					vh_case_begin(idx, "\"mode\":\"cls\",\"len\":%d,\"v\":%ld", len, v);
				check_dec(s, (size_t)len);
			}
		}
	} else if (!strcmp(a.mode, "rand")) {
		/* long strings: encode/decode round trip of random bytes, and decode of random text */
		static unsigned char x[300000];
		static char s[300000];
		static const char A64[] = "ABCDEFGHIJKLMNOPQRSTUVWXYZabcdefghijklmnopqrstuvwxyz0123456789-_";
		for (long i = 0; i < a.n; i++) {
			size_t n;
			int kind;
			if (!vh_mine(&a, i)) continue;
			vh_rng_seed(&r, a.seed, 5000 + (uint64_t)i);
			kind = (int)vh_below(&r, 4);
			switch (vh_below(&r, 40) == 0 ? 9 : vh_below(&r, 4)) {
			case 9: n = 65530 + vh_below(&r, 200000); break;	/* beyond 64 KiB */
			case 0: n = vh_below(&r, 16); break;
			case 1: n = vh_below(&r, 300); break;
			case 2: n = 4090 + vh_below(&r, 20); break;
			default: n = vh_below(&r, 65537); break;
			}
			vh_case_begin(i, "\"mode\":\"rand\",\"kind\":%d,\"n\":%zu", kind, n);
			if (n_desc < 4096) { int d = kind * 100000 + (int)n, f = 0; for (int q = 0; q < n_desc; q++) if (desc[q] == d) { f = 1; break; } if (!f) desc[n_desc++] = d; }
			if (kind == 0) {
				vh_rand_bytes(&r, x, n);
				check_enc(x, n);
			} else {
				/* text: mostly alphabet, optionally one foreign byte / padding / bad length */
				for (size_t j = 0; j < n; j++) s[j] = A64[vh_below(&r, 64)];
				if (kind == 2 && n) s[vh_below(&r, n)] = (char)(1 + vh_below(&r, 255));
				if (kind == 3 && n) { size_t p = n - 1 - vh_below(&r, n < 3 ? n : 3); for (size_t j = p; j < n; j++) s[j] = '='; }
				for (size_t j = 0; j < n; j++) if (!s[j]) s[j] = '!';
				check_dec(s, n);
			}
		}
	} else if (!strcmp(a.mode, "dict")) {
		/* alphabet text of every short length (and a few long ones) with one multi-character affix from a dictionary of the spellings a
		 * lenient decoder might want to understand: URL escapes of '=', '+', '/', line ends, HTML/JSON escapes, quotes, BOM */
		static const char *DICT[] = { "%3D", "%3D%3D", "%3d", "%3d%3d", "%2B", "%2F", "%2b", "%2f", "%2D", "%5F", "%20", "%0A", "%0D%0A", "%", "%3", "%3D=", "=%3D",
			"%253D", "&#61;", "&amp;", "&equals;", "\\n", "\\u003d", "\\/", "\n", "\r\n", "\r", " ", "\t", "\v", "\f", "  ", ".", ",", ":", ";", "'", "\"", "`", "~", "*", "!", "$", "(",
			")", "@", "#", "?", "&", "|", "<", ">", "[", "]", "{", "}", "^", "\\", "\x7f", "\x80", "\xff", "\xc2\xa0", "\xef\xbb\xbf", "\xe2\x80\x8b", "\xe2\x80\xa8",
			"-----", "b'", "0x", "=.", ".=", "=\n", "==\n", "\n=", "= ", " =" };
		static const char A64[] = "ABCDEFGHIJKLMNOPQRSTUVWXYZabcdefghijklmnopqrstuvwxyz0123456789-_";
		static const int LENS[] = { 0, 1, 2, 3, 4, 5, 6, 7, 8, 9, 10, 11, 12, 16, 17, 18, 19, 63, 64, 65, 66, 255, 256, 257, 258, 1022, 1023, 1024, 1025, 4094, 4095, 4096, 4097 };
		long idx = 0;
		for (size_t di = 0; di < sizeof(DICT) / sizeof(DICT[0]); di++)
			for (size_t li = 0; li < sizeof(LENS) / sizeof(LENS[0]); li++)
				for (int place = 0; place < 3; place++, idx++) {
					char s[4200];
					size_t n = (size_t)LENS[li], dl = strlen(DICT[di]), cut = place == 0 ? n : place == 1 ? 0 : n / 2, w = 0;
					if (!vh_mine(&a, idx)) continue;
					vh_rng_seed(&r, a.seed, 9000 + (uint64_t)idx);
					if ((idx & 0xff) == 0) vh_case_begin(idx, "\"mode\":\"dict\",\"affix\":%zu,\"len\":%zu,\"place\":%d", di, n, place);
					for (size_t j = 0; j < cut; j++) s[w++] = A64[vh_below(&r, 64)];
					memcpy(s + w, DICT[di], dl); w += dl;
					for (size_t j = cut; j < n; j++) s[w++] = A64[vh_below(&r, 64)];
					check_dec(s, w);
				}
		/* runs: N foreign bytes in one text (a decoder that counts instead of stopping must not wrap its counter), alone, after alphabet
		 * text, and spread one per line as in MIME-wrapped base64 (N lines of 64 or 76 alphabet characters, each ending in a line feed) */
		{
			static const int RUN[] = { 2, 3, 255, 256, 257, 511, 512, 513, 768, 1024, 4096, 65535, 65536, 65537 };
			static const char FC[] = { '!', '*', '\n', ' ', '%', '\x80', '.', ':' };
			static char big[70000 * 78 / 10];	/* up to 65537 foreign bytes, or 4096 lines of 77 */
			for (size_t ri = 0; ri < sizeof(RUN) / sizeof(RUN[0]); ri++)
				for (size_t ci = 0; ci < sizeof(FC); ci++)
					for (int shape = 0; shape < 4; shape++, idx++) {
						size_t w = 0, N = (size_t)RUN[ri];
						if (!vh_mine(&a, idx)) continue;
						if (shape >= 2 && N > 4096) continue;
						vh_rng_seed(&r, a.seed, 9000 + (uint64_t)idx);
						if ((idx & 0x3f) == 0) vh_case_begin(idx, "\"mode\":\"dict-run\",\"n\":%zu,\"shape\":%d", N, shape);
						if (shape == 1) for (int j = 0; j < 8; j++) big[w++] = A64[vh_below(&r, 64)];
						if (shape <= 1) { memset(big + w, FC[ci], N); w += N; }
						else {
							size_t ll = shape == 2 ? 64 : 76;
							for (size_t l = 0; l < N; l++) { for (size_t j = 0; j < ll; j++) big[w++] = A64[vh_below(&r, 64)]; big[w++] = FC[ci]; }
						}
						check_dec(big, w);
					}
		}
	} else if (!strcmp(a.mode, "cold")) {
		/* the process's very first encodes/decodes, made by several threads at once (tables built on first use must not be
		 * visible half-built): every result is compared with the reference codec */
		enum { NT = 12 };
		static pthread_t th[NT];
		static struct { unsigned char bin[3001]; char txt[4100]; size_t tl; int bad; } W[NT];
		for (int t = 0; t < NT; t++) {
			vh_rand_bytes(&r, W[t].bin, sizeof(W[t].bin));
			W[t].tl = vh_b64u_enc(W[t].bin, sizeof(W[t].bin), W[t].txt);
		}
		pthread_barrier_init(&cold_barrier, NULL, NT);
		for (int t = 0; t < NT; t++) if (pthread_create(&th[t], NULL, cold_worker, &W[t])) vh_harness_fail("pthread_create");
		for (int t = 0; t < NT; t++) pthread_join(th[t], NULL);
		for (int t = 0; t < NT; t++) {
			n_eval += 3; n_judged += 3;
			if (W[t].bad) viol("cold-start", "first concurrent use: decode/encode of valid text gave a wrong result", W[t].txt, 40, NULL, W[t].bad);
			else n_roundtrip++;
		}
	} else
		vh_harness_fail("unknown mode %s", a.mode);

	printf("{\"stats\":{\"eval\":%lu,\"judged\":%lu,\"unjudged\":%lu,\"reject_ok\":%lu,\"roundtrip\":%lu,\"viol\":%lu,"
	       "\"cls\":[%lu,%lu,%lu,%lu,%lu],\"desc\":%d}}\n", n_eval, n_judged, n_unjudged, n_reject_ok, n_roundtrip, n_viol,
	       cls_seen[0], cls_seen[1], cls_seen[2], cls_seen[3], cls_seen[4], n_desc);
	return 0;
}

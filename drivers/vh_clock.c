/* Fake clock: the statically linked libjwt calls this time().  With vh_tick != 0 the clock advances on every reading
 * (one operation must take one reading: values derived from several readings disagree).  Nothing is written while
 * vh_tick == 0, so concurrent readers (C18) do not race on the harness' own state. */
#include <time.h>
time_t vh_now = 1700000000;
time_t vh_tick = 0;
time_t time(time_t *t)
{
	time_t v = vh_now;
	if (vh_tick)
		vh_now = v + vh_tick;
	if (t)
		*t = v;
	return v;
}

/* C16: a keyring is an ordered list under every sequence of operations.
 * Each loaded item carries a unique id (good oct keys: first 4 key bytes; bad items: kid "bad-<id>").
 * After every operation the whole observable state is dumped:
 *   ["P", seq, step, op, ret, count, error_any, set_err, set_msg_nonempty, [[uid,kidcode,err],...], [find a, find b, find c, find "ab", find "", find "bad-<lastbad>"]]
 * modes: exh (--n max length), rand (--n sequences, length up to 200)
 */
#include "vh.h"

#define NOPS 14
static long next_uid;
static long last_bad_uid;

#define KID_C "c+d/e"
static void mk_good(char *out, size_t n, const char *kid, long uid)
{
	unsigned char k[16] = { 0 };
	char *k64;
	k[0] = (unsigned char)(uid >> 24); k[1] = (unsigned char)(uid >> 16); k[2] = (unsigned char)(uid >> 8); k[3] = (unsigned char)uid;
	k[15] = 0x5a;
	k64 = vh_b64u_enc_dup(k, 16);
	/* the items labelled "c" carry a kid with characters of both base64 alphabets: look-ups compare kids exactly */
	snprintf(out, n, "{\"kty\":\"oct\",\"k\":\"%s\",\"kid\":\"%s\"}", k64, !strcmp(kid, "c") ? KID_C : kid);
	free(k64);
}
static void mk_bad(char *out, size_t n, long uid)
{
	if (uid & 1) {
		/* bad only after its key material was imported (non-string alg): the item owns key bytes although it is flagged */
		unsigned char k[16] = { 0 };
		char *k64;
		k[0] = (unsigned char)(uid >> 24); k[1] = (unsigned char)(uid >> 16); k[2] = (unsigned char)(uid >> 8); k[3] = (unsigned char)uid;
		k64 = vh_b64u_enc_dup(k, 16);
		snprintf(out, n, "{\"kty\":\"oct\",\"k\":\"%s\",\"alg\":5,\"kid\":\"bad-%ld\"}", k64, uid);
		free(k64);
	} else
		snprintf(out, n, "{\"kty\":\"oct\",\"kid\":\"bad-%ld\"}", uid);
}

static long item_uid(const jwk_item_t *it, int *kidcode)
{
	const unsigned char *b; size_t bl;
	const char *kid = jwks_item_kid(it);
	*kidcode = !kid ? -1 : !strcmp(kid, "a") ? 0 : !strcmp(kid, "b") ? 1 : !strcmp(kid, KID_C) ? 2 : !strncmp(kid, "bad-", 4) ? 3 : 9;
	if (!jwks_item_key_oct(it, &b, &bl) && bl >= 4)
		return ((long)b[0] << 24) | ((long)b[1] << 16) | ((long)b[2] << 8) | (long)b[3];
	if (kid && !strncmp(kid, "bad-", 4))
		return atol(kid + 4);
	return -2;
}

static long find_uid(jwk_set_t *s, const char *kid)
{
	const jwk_item_t *it = jwks_find_bykid(s, kid);
	int kc;
	return it ? item_uid(it, &kc) : -1;
}

static void dump(long seq, int step, int op, long ret, jwk_set_t *s, const char *loaded)
{
	size_t n = jwks_item_count(s);
	char lastbad[32];
	static long uid[4096]; static int kc[4096], er[4096];
	int past_end_nonnull = 0;
	/* observation order varies (ascending / past-the-end first then descending / middle-out) so that a stale
	 * position cache inside the keyring cannot be healed by always scanning from index 0 first */
	int mode = (int)((seq + step) % 3);
	if (n > 4096) vh_harness_fail("keyring too long");
	if (mode == 1) past_end_nonnull = jwks_item_get(s, n) != NULL;
	for (size_t q = 0; q < n; q++) {
		size_t i = mode == 0 ? q : mode == 1 ? n - 1 - q : (q % 2 ? n / 2 - (q + 1) / 2 : n / 2 + q / 2);
		const jwk_item_t *it;
		if (i >= n) i = q;	/* middle-out overshoot for tiny n */
		it = jwks_item_get(s, i);
		if (!it) { uid[i] = -7; kc[i] = -7; er[i] = -7; continue; }
		uid[i] = item_uid(it, &kc[i]); er[i] = jwks_item_error(it);
	}
	if (mode != 1) past_end_nonnull = jwks_item_get(s, n) != NULL;
	if (jwks_item_get(s, n + 3) != NULL) past_end_nonnull = 1;
	/* indexes that alias a valid one when narrowed to 32 / 16 / 8 bits */
	if (jwks_item_get(s, (size_t)1 << 32) != NULL || jwks_item_get(s, ((size_t)1 << 32) + n / 2) != NULL || jwks_item_get(s, ((size_t)1 << 40) + 1) != NULL ||
	    jwks_item_get(s, (size_t)-1) != NULL || (n <= 65536 && jwks_item_get(s, 65536 + n / 2) != NULL) || (n <= 256 && jwks_item_get(s, 256) != NULL))
		past_end_nonnull = 1;
	printf("[\"P\",%ld,%d,%d,%ld,%zu,%d,%d,%d,[", seq, step, op, ret, n, jwks_error_any(s), jwks_error(s), jwks_error_msg(s)[0] != 0);
	for (size_t i = 0; i < n; i++) printf("%s[%ld,%d,%d]", i ? "," : "", uid[i], kc[i], er[i]);
	if (past_end_nonnull) printf("%s[-9,-9,-9]", n ? "," : "");	/* get past the end must be NULL */
	snprintf(lastbad, sizeof(lastbad), "bad-%ld", last_bad_uid);
	printf("],[%ld,%ld,%ld,%ld,%ld,%ld,%ld,%ld,%ld,%ld,%ld],", find_uid(s, "a"), find_uid(s, "b"), find_uid(s, KID_C), find_uid(s, "ab"), find_uid(s, ""), find_uid(s, lastbad),
	       find_uid(s, "c-d_e"), find_uid(s, "c%2Bd%2Fe"), find_uid(s, "C+D/E"), find_uid(s, "c"), find_uid(s, "c+d/e "));
	vh_put_jstr(stdout, loaded);
	printf("]\n");
}

/* documents reach the keyring through the string, file-name and FILE* entry points in turn */
static char tmpname[64];
static jwk_set_t *load_doc(jwk_set_t *s, const char *doc, long seq, int step)
{
	int how = (int)((seq + step) % 3);
	FILE *f;
	if (how == 0) return jwks_load(s, doc);
	if (!tmpname[0]) snprintf(tmpname, sizeof(tmpname), "/tmp/vh_c16_%d.json", (int)getpid());
	f = fopen(tmpname, "wb");
	if (!f) vh_harness_fail("tmp file");
	fwrite(doc, 1, strlen(doc), f);
	fclose(f);
	if (how == 1) return jwks_load_fromfile(s, tmpname);
	f = fopen(tmpname, "rb");
	s = jwks_load_fromfp(s, f);
	fclose(f);
	return s;
}

static jwk_set_t *do_op(long seq, int step, int op, jwk_set_t *s)
{
	char doc[1024], d1[256], d2[256], d3[256], ids[96] = "";
	long ret = 0;
	size_t n = jwks_item_count(s);
	switch (op) {
	case 0: case 1: snprintf(ids, sizeof(ids), "g:a:%ld", next_uid); mk_good(doc, sizeof(doc), "a", next_uid++); s = load_doc(s, doc, seq, step); break;
	case 2: snprintf(ids, sizeof(ids), "g:b:%ld", next_uid); mk_good(doc, sizeof(doc), "b", next_uid++); s = load_doc(s, doc, seq, step); break;
	case 3: snprintf(ids, sizeof(ids), "x:%ld", next_uid); last_bad_uid = next_uid; mk_bad(doc, sizeof(doc), next_uid++); s = load_doc(s, doc, seq, step); break;
	case 4:
		snprintf(ids, sizeof(ids), "g:c:%ld,x:%ld,g:a:%ld", next_uid, next_uid + 1, next_uid + 2);
		mk_good(d1, sizeof(d1), "c", next_uid); mk_bad(d2, sizeof(d2), next_uid + 1); mk_good(d3, sizeof(d3), "a", next_uid + 2);
		last_bad_uid = next_uid + 1;
		next_uid += 3;
		snprintf(doc, sizeof(doc), "{\"keys\":[%s,%s,%s]}", d1, d2, d3);
		s = load_doc(s, doc, seq, step);
		break;
	case 5: snprintf(ids, sizeof(ids), "notjson"); s = load_doc(s, "{\"keys\": [ this is not json", seq, step); break;
	case 6: ret = jwks_item_free(s, 0); break;
	case 7: ret = jwks_item_free(s, n / 2); break;
	case 8: ret = jwks_item_free(s, n ? n - 1 : 0); break;
	case 9: ret = jwks_item_free(s, (step & 1) ? n : (size_t)1 << 32); break;	/* out of range: count itself, or 2^32 (an index that is 0 once narrowed to 32 bits) */
	case 10: ret = jwks_item_free_bad(s); break;
	case 11: ret = jwks_item_free_all(s); break;
	case 12: jwks_error_clear(s); break;
	case 13: ret = jwks_item_free(s, (step & 1) ? n + 5 : ((size_t)1 << 32) + n / 2); break;	/* out of range: count+5, or 2^32 + a valid index */
	case 14: {	/* one document with 300 good keys (kid "k", unique ids): list lengths beyond 255 / 1024 */
		size_t cnt = n > 3500 ? 5 : 300, cap = cnt * 96 + 32, off;
		char *big = malloc(cap), one[160];
		snprintf(ids, sizeof(ids), "bulk:%ld:%zu", next_uid, cnt);
		off = (size_t)snprintf(big, cap, "{\"keys\":[");
		for (size_t i = 0; i < cnt; i++) { mk_good(one, sizeof(one), "k", next_uid++); off += (size_t)snprintf(big + off, cap - off, "%s%s", i ? "," : "", one); }
		snprintf(big + off, cap - off, "]}");
		s = load_doc(s, big, seq, step);
		free(big);
		break;
	}
	case 15: {	/* one document mixing good and flagged keys: every pat-th key is bad; counts straddle 32, 64, 128, 256 flagged items */
		static const int CNT[] = { 33, 34, 40, 65, 66, 100, 129, 130, 200, 257, 258, 300, 31, 32, 64, 128 };
		size_t cnt = n > 3000 ? 5 : (size_t)CNT[(seq * 7 + step) % 16], cap, off;
		int pat = 1 + (int)((seq + step / 2) % 3);
		char *big, one[200];
		cnt *= (size_t)pat;	/* cnt flagged items among cnt*pat */
		cap = cnt * 120 + 32; big = malloc(cap);
		snprintf(ids, sizeof(ids), "mix:%ld:%zu:%d", next_uid, cnt, pat);
		off = (size_t)snprintf(big, cap, "{\"keys\":[");
		for (size_t i = 0; i < cnt; i++) {
			if (i % (size_t)pat == 0) { last_bad_uid = next_uid; mk_bad(one, sizeof(one), next_uid++); }
			else mk_good(one, sizeof(one), "k", next_uid++);
			off += (size_t)snprintf(big + off, cap - off, "%s%s", i ? "," : "", one);
		}
		snprintf(big + off, cap - off, "]}");
		s = load_doc(s, big, seq, step);
		free(big);
		break;
	}
	}
	if (!s) vh_harness_fail("load returned NULL");
	dump(seq, step, op, ret, s, ids);
	return s;
}

int main(int argc, char **argv)
{
	vh_args_t a;
	vh_rng_t rng;
	unsigned long nops = 0;
	vh_parse_args(argc, argv, &a);
	vh_alloc_install();	/* foreign frees and writes after free, also inside the uninstrumented JSON library */
	if (!strcmp(a.mode, "exh")) {
		long seq = 0;
		for (int len = 1; len <= (int)a.n; len++) {
			long cnt = 1;
			for (int i = 0; i < len; i++) cnt *= NOPS;
			for (long v = 0; v < cnt; v++, seq++) {
				jwk_set_t *s;
				long t = v;
				if (!vh_mine(&a, seq)) continue;
				vh_case_begin(seq, "\"mode\":\"exh\",\"len\":%d,\"v\":%ld", len, v);
				next_uid = 100; last_bad_uid = 0;
				s = jwks_create(NULL);
				printf("[\"N\",%ld]\n", seq);
				for (int i = 0; i < len; i++) { s = do_op(seq, i, (int)(t % NOPS), s); t /= NOPS; nops++; }
				jwks_free(s);
			}
		}
	} else if (!strcmp(a.mode, "big")) {
		/* long keyrings: bulk loads interleaved with removals */
		for (long q = 0; q < a.n; q++) {
			jwk_set_t *s;
			if (!vh_mine(&a, q)) continue;
			vh_rng_seed(&rng, a.seed, 4000000 + (uint64_t)q);
			vh_case_begin(q, "\"mode\":\"big\"");
			next_uid = 100; last_bad_uid = 0;
			s = jwks_create(NULL);
			printf("[\"N\",%ld]\n", q);
			for (int i = 0; i < 40; i++) {
				int op = i == 0 ? 14 : i == 1 ? 15 : (int)vh_below(&rng, 21);
				if (op >= 18) op = 15; else if (op >= 15) op = 14;
				if (i == 2 && (q & 1)) op = 10;
				if (op == 11 && vh_below(&rng, 3)) op = 7;	/* free_all rarely */
				s = do_op(q, i, op, s);
				nops++;
			}
			jwks_free(s);
		}
	} else {
		for (long q = 0; q < a.n; q++) {
			jwk_set_t *s;
			int len;
			if (!vh_mine(&a, q)) continue;
			vh_rng_seed(&rng, a.seed, 3000000 + (uint64_t)q);
			len = 5 + (int)vh_below(&rng, 196);
			vh_case_begin(q, "\"mode\":\"rand\",\"len\":%d", len);
			next_uid = 100; last_bad_uid = 0;
			s = jwks_create(NULL);
			printf("[\"N\",%ld]\n", q);
			for (int i = 0; i < len; i++) {
				/* loads a bit more often than removals so that lists grow */
				int op = (int)vh_below(&rng, 20);
				if (op >= NOPS) op = (int)vh_below(&rng, 5);
				s = do_op(q, i, op, s);
				nops++;
			}
			jwks_free(s);
		}
	}
	printf("[\"STATS\",%lu]\n", nops);
	if (tmpname[0]) remove(tmpname);
	return 0;
}

/* C01 under provider-internal allocation failure.
 * The crypto libraries' own allocators are replaced (OpenSSL: CRYPTO_set_mem_functions; GnuTLS: the exported gnutls_malloc /
 * gnutls_calloc / gnutls_realloc pointers) by counting ones that can make the k-th request fail (mode 1) or every request from
 * the k-th on (mode 2) while jwt_checker_verify runs.  A primitive that fails for lack of memory reports an error, not a verdict;
 * whatever libjwt makes of that, a token that is not validly signed must never be accepted, and nothing may crash in libjwt.
 *   ["F", idx, prov, key, alg, tokkind, n_allocs, mode, k, rc]      one line per injected fault whose outcome differs from "rejected"/"accepted as fault-free"
 *   ["N", idx, prov, key, alg, tokkind, n_allocs, rc_fault_free, faults_injected, accepted_under_fault, rejected_under_fault]
 *   ["G", idx, prov, key, alg, n_allocs, mode, k, token_returned, ref_valid(, token)]   a generate under fault returned a token that is not validly signed / differs
 *   ["M", idx, prov, key, alg, n_allocs, faults_injected, tokens_returned, nulls]
 * tokkind: 0 valid, 1 signature bit flipped, 2 signature all zero, 3 other payload under the valid signature, 4 signature by another key
 */
#include "vh.h"
#include <openssl/crypto.h>
#include <gnutls/gnutls.h>
#include <sanitizer/lsan_interface.h>

static volatile int armed;
static long m_count, m_fail_at;
static int m_mode;
static long ossl_seen, gtls_seen;

static int should_fail(void)
{
	if (!armed) return 0;
	m_count++;
	if (m_fail_at <= 0) return 0;
	return m_mode == 1 ? m_count == m_fail_at : m_count >= m_fail_at;
}
static void *o_malloc(size_t n, const char *f, int l) { (void)f; (void)l; if (armed) ossl_seen++; if (should_fail()) return NULL; return malloc(n); }
static void *o_realloc(void *p, size_t n, const char *f, int l) { (void)f; (void)l; if (armed) ossl_seen++; if (should_fail()) return NULL; return realloc(p, n); }
static void o_free(void *p, const char *f, int l) { (void)f; (void)l; free(p); }
static void *g_malloc(size_t n) { if (armed) gtls_seen++; if (should_fail()) return NULL; return malloc(n); }
static void *g_calloc(size_t a, size_t b) { if (armed) gtls_seen++; if (should_fail()) return NULL; return calloc(a, b); }
static void *g_realloc(void *p, size_t n) { if (armed) gtls_seen++; if (should_fail()) return NULL; return realloc(p, n); }

static int hooks_ok;
__attribute__((constructor(101))) static void install(void)
{
	hooks_ok = CRYPTO_set_mem_functions(o_malloc, o_realloc, o_free);
	gnutls_malloc = g_malloc;
	gnutls_calloc = g_calloc;
	gnutls_realloc = g_realloc;
}

static const struct { const char *spec; int alg; } CASES[] = {
	{ "oct:64", JWT_ALG_HS256 }, { "oct:64", JWT_ALG_HS512 }, { "rsa:2048", JWT_ALG_RS256 }, { "rsa:2048", JWT_ALG_PS256 }, { "rsa:2048", JWT_ALG_RS512 },
	{ "rsapss:2048", JWT_ALG_PS384 }, { "ec:P-256", JWT_ALG_ES256 }, { "ec:P-384", JWT_ALG_ES384 }, { "ec:P-521", JWT_ALG_ES512 },
	{ "ec:secp256k1", JWT_ALG_ES256K }, { "okp:Ed25519", JWT_ALG_EDDSA }, { "okp:Ed448", JWT_ALG_EDDSA },
};
#define NCASES ((int)(sizeof(CASES) / sizeof(CASES[0])))
#define NTOKK 5

int main(int argc, char **argv)
{
	vh_args_t a;
	vh_rng_t rng;
	long idx = 0;
	unsigned long injected = 0, accepted_invalid = 0;
	vh_parse_args(argc, argv, &a);
	if (!hooks_ok) vh_harness_fail("CRYPTO_set_mem_functions refused: OpenSSL allocated before the harness constructor ran");
	vh_rng_seed(&rng, a.seed, 1717);
	for (int ci = 0; ci < NCASES; ci++) {
		vh_key_t k, k2;
		char hdr[96], *tok[NTOKK] = { 0 };
		static const char *payload = "{\"iss\":\"c01f\",\"n\":1}", *payload2 = "{\"iss\":\"c01f\",\"n\":2}";
		if (vh_key_gen(&k, CASES[ci].spec, &rng) || vh_key_gen(&k2, CASES[ci].spec, &rng)) vh_harness_fail("keygen %s", CASES[ci].spec);
		snprintf(hdr, sizeof(hdr), "{\"alg\":\"%s\",\"typ\":\"JWT\"}", vh_alg_name(CASES[ci].alg));
		tok[0] = vh_ref_token(&k, CASES[ci].alg, hdr, payload);
		if (!tok[0]) vh_harness_fail("reference token %s", CASES[ci].spec);
		{	/* derived invalid tokens */
			char *d = strrchr(tok[0], '.');
			unsigned char sg[1200]; long sl = vh_b64u_dec(d + 1, strlen(d + 1), sg);
			char *s64, *t2, *p2;
			size_t hl = (size_t)(d - tok[0]);
			sg[sl / 2] ^= 0x10;
			s64 = vh_b64u_enc_dup(sg, (size_t)sl);
			tok[1] = malloc(hl + strlen(s64) + 2); sprintf(tok[1], "%.*s.%s", (int)hl, tok[0], s64); free(s64);
			memset(sg, 0, (size_t)sl);
			s64 = vh_b64u_enc_dup(sg, (size_t)sl);
			tok[2] = malloc(hl + strlen(s64) + 2); sprintf(tok[2], "%.*s.%s", (int)hl, tok[0], s64); free(s64);
			t2 = vh_ref_token(&k, CASES[ci].alg, hdr, payload2);
			p2 = strrchr(t2, '.'); *p2 = 0;
			tok[3] = malloc(strlen(t2) + strlen(d) + 2); sprintf(tok[3], "%s%s", t2, d); free(t2);
			tok[4] = vh_ref_token(&k2, CASES[ci].alg, hdr, payload);
		}
		for (int prov = 0; prov < 2; prov++) {
			jwk_set_t *set = NULL;
			const jwk_item_t *it;
			jwt_checker_t *c;
			if (prov == 1 && CASES[ci].alg == JWT_ALG_ES256K) continue;	/* GnuTLS has no secp256k1 */
			vh_set_prov(prov);
			it = vh_key_load(&k, k.kind == VH_K_OCT, NULL, &set);
			if (!it || jwks_item_error(it)) vh_harness_fail("key load");
			c = jwt_checker_new();
			if (jwt_checker_setkey(c, (jwt_alg_t)CASES[ci].alg, it)) vh_harness_fail("setkey");
			for (int tk = 0; tk < NTOKK; tk++, idx++) {
				long n_allocs, kmax, acc = 0, rej = 0, inj = 0;
				int rc0;
				if (!vh_mine(&a, idx)) continue;
				vh_case_begin(idx, "\"key\":\"%s\",\"alg\":\"%s\",\"prov\":%d,\"tok\":%d", CASES[ci].spec, vh_alg_name(CASES[ci].alg), prov, tk);
				/* warm up (algorithm fetches are cached by the providers), then count */
				jwt_checker_verify(c, tok[tk]);
				m_fail_at = 0; m_count = 0; armed = 1;
				rc0 = jwt_checker_verify(c, tok[tk]);
				armed = 0;
				n_allocs = m_count;
				if ((rc0 == 0) != (tk == 0)) {
					printf("[\"F\",%ld,%d,\"%s\",\"%s\",%d,%ld,0,0,%d]\n", idx, prov, CASES[ci].spec, vh_alg_name(CASES[ci].alg), tk, n_allocs, rc0);
					if (rc0 == 0) accepted_invalid++;
				}
				kmax = n_allocs;
				if (!a.thorough && kmax > 400) kmax = 400;
				for (int mode = 1; mode <= 2; mode++) for (long kk = 1; kk <= kmax; kk++) {
					int rc;
					/* quick: beyond the first 400 requests sample the rest */
					m_mode = mode; m_fail_at = kk; m_count = 0; armed = 1;
					rc = jwt_checker_verify(c, tok[tk]);
					armed = 0;
					inj++;
					if (rc == 0) acc++; else rej++;
					if (rc == 0 && tk != 0) {
						accepted_invalid++;
						printf("[\"F\",%ld,%d,\"%s\",\"%s\",%d,%ld,%d,%ld,%d]\n", idx, prov, CASES[ci].spec, vh_alg_name(CASES[ci].alg), tk, n_allocs, mode, kk, rc);
					}
					jwt_checker_error_clear(c);
				}
				if (!a.thorough && n_allocs > 400) {
					for (int s = 0; s < 200; s++) {
						int rc;
						m_mode = 1 + (s & 1); m_fail_at = 401 + (long)vh_below(&rng, (uint64_t)(n_allocs - 400)); m_count = 0; armed = 1;
						rc = jwt_checker_verify(c, tok[tk]);
						armed = 0;
						inj++;
						if (rc == 0) acc++; else rej++;
						if (rc == 0 && tk != 0) {
							accepted_invalid++;
							printf("[\"F\",%ld,%d,\"%s\",\"%s\",%d,%ld,%d,%ld,%d]\n", idx, prov, CASES[ci].spec, vh_alg_name(CASES[ci].alg), tk, n_allocs, m_mode, m_fail_at, rc);
						}
						jwt_checker_error_clear(c);
					}
				}
				/* after all those faults the fault-free verdict must be what it was */
				m_fail_at = 0;
				{
					int rc = jwt_checker_verify(c, tok[tk]);
					if ((rc == 0) != (rc0 == 0))
						printf("[\"F\",%ld,%d,\"%s\",\"%s\",%d,%ld,9,0,%d]\n", idx, prov, CASES[ci].spec, vh_alg_name(CASES[ci].alg), tk, n_allocs, rc);
				}
				injected += (unsigned long)inj;
				printf("[\"N\",%ld,%d,\"%s\",\"%s\",%d,%ld,%d,%ld,%ld,%ld]\n", idx, prov, CASES[ci].spec, vh_alg_name(CASES[ci].alg), tk, n_allocs, rc0, inj, acc, rej);
			}
			jwt_checker_free(c);
			/* signing side: a token comes out only if it is validly signed.  Leaks on the signing error paths under provider
			 * faults are outside every listed property (and partly inside GnuTLS): not reported */
			if (a.mode && !strcmp(a.mode, "verify")) { jwks_free(set); continue; }
			__lsan_disable();
			{
				const jwk_item_t *pk = vh_key_load(&k, 1, NULL, &set);
				jwt_builder_t *b = jwt_builder_new();
				jwt_value_t jv;
				char *t0;
				long n_allocs, kmax, inj = 0, toks = 0, nulls = 0;
				if (!pk || jwt_builder_setkey(b, (jwt_alg_t)CASES[ci].alg, pk)) vh_harness_fail("builder setkey");
				jwt_builder_enable_iat(b, 0);
				jwt_set_SET_STR(&jv, "iss", "c01f"); jwt_builder_claim_set(b, &jv);
				if (vh_mine(&a, idx)) {
					vh_case_begin(idx, "\"key\":\"%s\",\"alg\":\"%s\",\"prov\":%d,\"tok\":\"sign\"", CASES[ci].spec, vh_alg_name(CASES[ci].alg), prov);
					t0 = jwt_builder_generate(b); free(t0);
					m_fail_at = 0; m_count = 0; armed = 1;
					t0 = jwt_builder_generate(b);
					armed = 0;
					n_allocs = m_count;
					if (!t0 || !vh_ref_token_valid(&k, t0, NULL))
						printf("[\"G\",%ld,%d,\"%s\",\"%s\",%ld,0,0,%d,0]\n", idx, prov, CASES[ci].spec, vh_alg_name(CASES[ci].alg), n_allocs, t0 != NULL);
					kmax = n_allocs;
					if (!a.thorough && kmax > 600) kmax = 600;
					for (int mode = 1; mode <= 2; mode++) for (long kk = 1; kk <= kmax; kk++) {
						char *t;
						m_mode = mode; m_fail_at = kk; m_count = 0; armed = 1;
						t = jwt_builder_generate(b);
						armed = 0;
						inj++;
						if (!t) nulls++;
						else {
							int ok = vh_ref_token_valid(&k, t, NULL);
							/* deterministic algorithms: byte-identical to the fault-free token */
							int same = strcmp(t, t0 ? t0 : "") == 0;
							int det = vh_alg_family(CASES[ci].alg) == VH_FAM_HS || vh_alg_family(CASES[ci].alg) == VH_FAM_RS || vh_alg_family(CASES[ci].alg) == VH_FAM_ED;
							toks++;
							if (!ok || (det && !same)) {
								accepted_invalid++;
								printf("[\"G\",%ld,%d,\"%s\",\"%s\",%ld,%d,%ld,1,%d,", idx, prov, CASES[ci].spec, vh_alg_name(CASES[ci].alg), n_allocs, mode, kk, ok);
								vh_put_jstr(stdout, t); printf("]\n");
							}
						}
						free(t);
						jwt_builder_error_clear(b);
					}
					free(t0);
					injected += (unsigned long)inj;
					printf("[\"M\",%ld,%d,\"%s\",\"%s\",%ld,%ld,%ld,%ld]\n", idx, prov, CASES[ci].spec, vh_alg_name(CASES[ci].alg), n_allocs, inj, toks, nulls);
				}
				idx++;
				jwt_builder_free(b);
			}
			__lsan_enable();
			jwks_free(set);
		}
		for (int t = 0; t < NTOKK; t++) free(tok[t]);
		vh_key_free(&k); vh_key_free(&k2);
	}
	printf("[\"STATS\",%lu,%lu,%ld,%ld]\n", injected, accepted_invalid, ossl_seen, gtls_seen);
	return 0;
}

/* Harness library: PRNG, output, reference codec/crypto, key zoo, crash isolation. */
#include "vh.h"
#include <openssl/pem.h>
#include <openssl/bio.h>
#include <stdarg.h>
#include <unistd.h>
#include <signal.h>
#include <fcntl.h>
#include <sys/mman.h>
#include <openssl/hmac.h>
#include <openssl/bn.h>
#include <openssl/ec.h>
#include <openssl/ecdsa.h>
#include <openssl/rsa.h>
#include <openssl/core_names.h>
#include <openssl/param_build.h>
#include <openssl/rand.h>

static void vh_case_map(void);
/* ------------------------------------------------------------------ args */
void vh_parse_args(int argc, char **argv, vh_args_t *a)
{
	memset(a, 0, sizeof(*a));
	a->seed = 1; a->nshards = 1; a->only = -1; a->tier = "quick"; a->mode = ""; a->n = 0;
	for (int i = 1; i < argc; i++) {
		const char *k = argv[i], *v = (i + 1 < argc) ? argv[i + 1] : NULL;
		if (!strcmp(k, "--seed") && v) { a->seed = strtoull(v, NULL, 10); i++; }
		else if (!strcmp(k, "--shard") && v) { a->shard = atoi(v); i++; }
		else if (!strcmp(k, "--nshards") && v) { a->nshards = atoi(v); i++; }
		else if (!strcmp(k, "--start") && v) { a->start = atol(v); i++; }
		else if (!strcmp(k, "--only") && v) { a->only = atol(v); i++; }
		else if (!strcmp(k, "--tier") && v) { a->tier = v; i++; }
		else if (!strcmp(k, "--mode") && v) { a->mode = v; i++; }
		else if (!strcmp(k, "--n") && v) { a->n = atol(v); i++; }
		else if (!strcmp(k, "--arg1") && v) { a->arg1 = v; i++; }
		else if (!strcmp(k, "--arg2") && v) { a->arg2 = v; i++; }
		else vh_harness_fail("unknown argument %s", k);
	}
	a->thorough = !strcmp(a->tier, "thorough");
	if (a->nshards < 1) a->nshards = 1;
	vh_install_death_handler();
	/* line buffered: a sanitizer that kills the process without running our death callback (gcc's separate
	 * libubsan) must not take already judged events with it */
	setvbuf(stdout, NULL, _IOLBF, 1 << 16);
	vh_case_map();
}

/* ------------------------------------------------------- crash isolation */
static char vh_case_static[4096];
static char *vh_case_buf = vh_case_static;	/* points into a MAP_SHARED file when VH_CASE_FILE is set */
static long vh_case_idx = -1;
#define VH_CASE_CAP 4000

static void vh_case_map(void)
{
	const char *path = getenv("VH_CASE_FILE");
	int fd;
	void *m;
	if (!path || !path[0])
		return;
	fd = open(path, O_RDWR | O_CREAT | O_TRUNC, 0644);
	if (fd < 0 || ftruncate(fd, 4096) < 0)
		return;
	m = mmap(NULL, 4096, PROT_READ | PROT_WRITE, MAP_SHARED, fd, 0);
	close(fd);
	if (m != MAP_FAILED)
		vh_case_buf = m;
}
static volatile int vh_dying;

/* ---- tracking allocator (optional, single-threaded drivers only) ------------------------------------------------
 * Installed through jwt_set_alloc.  jansson and the crypto libraries are not instrumented, so the sanitizer sees neither their reads
 * nor their writes; this allocator adds what it can see from outside: (a) every block handed to the free function must have come
 * from the malloc function (foreign free), (b) freed blocks are filled with 0xDD and kept until the next case begins; a block whose
 * pattern has changed by then was written to after it was freed (a dangling json_t that is dereferenced reads the pattern: its
 * reference count, type and pointers are 0xDD.., which ends in such a write or in a fault).  A finding is reported like a sanitizer
 * report (stderr line "ERROR: HarnessAllocator: ...", then abort) so that it is attributed to the case in flight. */
#define VA_PT (1u << 18)
#define VA_QMAX 200000
static void *va_pt[VA_PT];
static unsigned va_sz[VA_PT];
static struct { void *p; unsigned n; } va_q[VA_QMAX];
static unsigned va_nq;
static size_t va_qbytes;
static int va_on;
unsigned long vh_alloc_blocks, vh_alloc_checked;
static unsigned va_slot(void *p) { return (unsigned)(((uintptr_t)p >> 4) * 2654435761u) & (VA_PT - 1); }
/* entries are stored disguised (xor), so that the table itself does not keep a leaked block reachable in LeakSanitizer's eyes */
#define VA_HIDE(p) ((void *)((uintptr_t)(p) ^ (uintptr_t)0x5a5a5a5a5a5a5a5aULL))
static void va_add(void *p_, size_t n)
{
	void *p = VA_HIDE(p_);
	unsigned i = va_slot(p_), spare = VA_PT;
	for (unsigned k = 0; k < VA_PT && va_pt[i]; k++, i = (i + 1) & (VA_PT - 1)) {
		if (va_pt[i] == p) { va_sz[i] = (unsigned)n; return; }	/* stale entry: the application released that block with free() itself */
		if (va_pt[i] == (void *)1 && spare == VA_PT) spare = i;
	}
	if (spare != VA_PT) i = spare;
	va_pt[i] = p; va_sz[i] = (unsigned)n;
}
static int va_del(void *p_, size_t *n)
{
	void *p = VA_HIDE(p_);
	unsigned i = va_slot(p_);
	for (unsigned k = 0; k < VA_PT && va_pt[i]; k++, i = (i + 1) & (VA_PT - 1))
		if (va_pt[i] == p) { va_pt[i] = (void *)1; *n = va_sz[i]; return 1; }
	return 0;
}
static void va_fail(const char *what, size_t n, size_t off)
{
	fprintf(stderr, "\nERROR: HarnessAllocator: %s (block of %zu bytes, offset %zu)\n", what, n, off);
	fflush(stderr);
	abort();
}
void vh_alloc_checkpoint(void)
{
	for (unsigned i = 0; i < va_nq; i++) {
		const unsigned char *b = va_q[i].p;
		for (unsigned j = 0; j < va_q[i].n; j++)
			if (b[j] != 0xDD) { unsigned n = va_q[i].n; va_nq = 0; va_fail("write-after-free", n, j); }
		free(va_q[i].p);
		vh_alloc_checked++;
	}
	va_nq = 0; va_qbytes = 0;
}
static long va_live;
static void *va_malloc(size_t n)
{
	void *p = malloc(n);
	if (p) { va_add(p, n); vh_alloc_blocks++; va_live++; }
	return p;
}
/* blocks handed out and not yet given back through the installed free function (library memory that the application owns - tokens, JSON
 * text - has to be released with vh_lib_free for this count to mean anything) */
long vh_alloc_live(void) { return va_live; }
void vh_alloc_leak(long before, const char *what)
{
	if (va_on && va_live != before) {
		fprintf(stderr, "\nERROR: HarnessAllocator: blocks-not-returned (%ld block(s) taken from the installed allocator during %s were never given back to it)\n", va_live - before, what);
		fflush(stderr);
		abort();
	}
}
static void va_free(void *p)
{
	size_t n = 0;
	if (!p) return;
	if (!va_del(p, &n)) va_fail("foreign-free", 0, 0);
	va_live--;
	memset(p, 0xDD, n);
	if (va_nq >= VA_QMAX || va_qbytes > ((size_t)256 << 20)) vh_alloc_checkpoint();
	va_q[va_nq].p = p; va_q[va_nq].n = (unsigned)n; va_nq++; va_qbytes += n;
}
void vh_lib_free(void *p) { if (va_on) va_free(p); else free(p); }
static void va_atexit(void) { if (va_on) vh_alloc_checkpoint(); }
void vh_alloc_install(void)
{
	if (jwt_set_alloc(va_malloc, va_free)) vh_harness_fail("jwt_set_alloc refused");
	va_on = 1;
	atexit(va_atexit);
}

void vh_case_begin(long idx, const char *fmt, ...)
{
	va_list ap;
	int n;
	if (va_on) vh_alloc_checkpoint();	/* what the previous case freed is judged while that case is still the one in flight */
	vh_case_idx = idx;
	/* layout: "<idx>\n<json fields>\0" so that the orchestrator can read the case in flight from the mapped file */
	n = snprintf(vh_case_buf, 32, "%ld\n", idx);
	va_start(ap, fmt);
	vsnprintf(vh_case_buf + n, VH_CASE_CAP - (size_t)n, fmt, ap);
	va_end(ap);
}

static void vh_death(void)
{
	char buf[4400];
	int n;
	if (vh_dying)
		return;
	vh_dying = 1;
	/* vh_case_buf holds a JSON object body fragment (without braces) or is empty */
	{
		const char *body = strchr(vh_case_buf, '\n');
		body = body ? body + 1 : "";
		n = snprintf(buf, sizeof(buf), "\n@@CRASH {\"idx\":%ld%s%s}\n", vh_case_idx, body[0] ? "," : "", body);
	}
	if (n > 0) {
		ssize_t w = write(2, buf, (size_t)n);
		(void)w;
	}
	fflush(stdout);
}

static void vh_sig(int sig)
{
	vh_death();
	signal(sig, SIG_DFL);
	raise(sig);
}

extern void __sanitizer_set_death_callback(void (*cb)(void)) __attribute__((weak));

void vh_install_death_handler(void)
{
	if (__sanitizer_set_death_callback)
		__sanitizer_set_death_callback(vh_death);
	else {
		signal(SIGSEGV, vh_sig);
		signal(SIGBUS, vh_sig);
		signal(SIGFPE, vh_sig);
		signal(SIGILL, vh_sig);
	}
	signal(SIGABRT, vh_sig);
}

void vh_harness_fail(const char *fmt, ...)
{
	va_list ap;
	fflush(stdout);
	fprintf(stderr, "@@HARNESS ");
	va_start(ap, fmt);
	vfprintf(stderr, fmt, ap);
	va_end(ap);
	fprintf(stderr, "\n");
	_exit(2);
}

/* ------------------------------------------------------------------ PRNG */
static uint64_t splitmix(uint64_t *x)
{
	uint64_t z = (*x += 0x9e3779b97f4a7c15ULL);
	z = (z ^ (z >> 30)) * 0xbf58476d1ce4e5b9ULL;
	z = (z ^ (z >> 27)) * 0x94d049bb133111ebULL;
	return z ^ (z >> 31);
}
void vh_rng_seed(vh_rng_t *r, uint64_t seed, uint64_t stream)
{
	uint64_t x = seed * 0x2545F4914F6CDD1DULL + stream * 0x9E3779B97F4A7C15ULL + 0x1234567;
	for (int i = 0; i < 4; i++)
		r->s[i] = splitmix(&x);
}
static inline uint64_t rotl(uint64_t x, int k) { return (x << k) | (x >> (64 - k)); }
uint64_t vh_rand(vh_rng_t *r)
{
	uint64_t *s = r->s, res = rotl(s[1] * 5, 7) * 9, t = s[1] << 17;
	s[2] ^= s[0]; s[3] ^= s[1]; s[1] ^= s[2]; s[0] ^= s[3]; s[2] ^= t; s[3] = rotl(s[3], 45);
	return res;
}
void vh_rand_bytes(vh_rng_t *r, unsigned char *buf, size_t n)
{
	for (size_t i = 0; i < n; i++)
		buf[i] = (unsigned char)(vh_rand(r) >> 24);
}

/* ---------------------------------------------------------------- output */
void vh_put_jstrn(FILE *f, const char *s, size_t n)
{
	fputc('"', f);
	for (size_t i = 0; i < n; i++) {
		unsigned char c = (unsigned char)s[i];
		if (c == '"' || c == '\\') { fputc('\\', f); fputc(c, f); }
		else if (c < 0x20 || c >= 0x7f) fprintf(f, "\\u%04x", c);
		else fputc(c, f);
	}
	fputc('"', f);
}
void vh_put_jstr(FILE *f, const char *s)
{
	if (!s) { fputs("null", f); return; }
	vh_put_jstrn(f, s, strlen(s));
}
void vh_put_hex(FILE *f, const void *p, size_t n)
{
	static const char hx[] = "0123456789abcdef";
	const unsigned char *b = p;
	fputc('"', f);
	for (size_t i = 0; i < n; i++) { fputc(hx[b[i] >> 4], f); fputc(hx[b[i] & 15], f); }
	fputc('"', f);
}

/* ------------------------------------------------- reference base64url */
static int b64_val(unsigned char c)
{
	if (c >= 'A' && c <= 'Z') return c - 'A';
	if (c >= 'a' && c <= 'z') return c - 'a' + 26;
	if (c >= '0' && c <= '9') return c - '0' + 52;
	if (c == '-' || c == '+') return 62;
	if (c == '_' || c == '/') return 63;
	return -1;
}
static char b64_chr(unsigned v)
{
	if (v < 26) return (char)('A' + v);
	if (v < 52) return (char)('a' + v - 26);
	if (v < 62) return (char)('0' + v - 52);
	return v == 62 ? '-' : '_';
}
size_t vh_b64u_enc(const unsigned char *in, size_t n, char *out)
{
	size_t o = 0, i = 0;
	for (; i + 3 <= n; i += 3) {
		uint32_t v = ((uint32_t)in[i] << 16) | ((uint32_t)in[i + 1] << 8) | in[i + 2];
		out[o++] = b64_chr(v >> 18); out[o++] = b64_chr((v >> 12) & 63);
		out[o++] = b64_chr((v >> 6) & 63); out[o++] = b64_chr(v & 63);
	}
	if (n - i == 1) {
		uint32_t v = (uint32_t)in[i] << 16;
		out[o++] = b64_chr(v >> 18); out[o++] = b64_chr((v >> 12) & 63);
	} else if (n - i == 2) {
		uint32_t v = ((uint32_t)in[i] << 16) | ((uint32_t)in[i + 1] << 8);
		out[o++] = b64_chr(v >> 18); out[o++] = b64_chr((v >> 12) & 63); out[o++] = b64_chr((v >> 6) & 63);
	}
	out[o] = 0;
	return o;
}
char *vh_b64u_enc_dup(const void *in, size_t n)
{
	char *o = malloc(4 * (n / 3) + 8);
	vh_b64u_enc(in, n, o);
	return o;
}
long vh_b64u_dec(const char *s, size_t n, unsigned char *out)
{
	size_t m = 0, o = 0;
	uint32_t acc = 0;
	int bits = 0;
	if (n % 4 == 1)
		return -1;
	while (m < n && s[m] != '=')
		m++;
	for (size_t i = 0; i < m; i++) {
		int v = b64_val((unsigned char)s[i]);
		if (v < 0)
			return -1;
		acc = (acc << 6) | (uint32_t)v;
		bits += 6;
		if (bits >= 8) {
			bits -= 8;
			out[o++] = (unsigned char)((acc >> bits) & 0xff);
		}
	}
	return (long)o;
}

/* ------------------------------------------------------------ algorithms */
static const char *alg_names[VH_NALG] = {
	"none", "HS256", "HS384", "HS512", "RS256", "RS384", "RS512", "ES256", "ES384", "ES512",
	"PS256", "PS384", "PS512", "ES256K", "EdDSA" };
const char *vh_alg_name(int alg) { return (alg >= 0 && alg < VH_NALG) ? alg_names[alg] : NULL; }
vh_fam_t vh_alg_family(int alg)
{
	switch (alg) {
	case JWT_ALG_HS256: case JWT_ALG_HS384: case JWT_ALG_HS512: return VH_FAM_HS;
	case JWT_ALG_RS256: case JWT_ALG_RS384: case JWT_ALG_RS512: return VH_FAM_RS;
	case JWT_ALG_PS256: case JWT_ALG_PS384: case JWT_ALG_PS512: return VH_FAM_PS;
	case JWT_ALG_ES256: case JWT_ALG_ES384: case JWT_ALG_ES512: case JWT_ALG_ES256K: return VH_FAM_ES;
	case JWT_ALG_EDDSA: return VH_FAM_ED;
	default: return VH_FAM_NONE;
	}
}
const EVP_MD *vh_alg_md(int alg)
{
	switch (alg) {
	case JWT_ALG_HS256: case JWT_ALG_RS256: case JWT_ALG_PS256: case JWT_ALG_ES256: case JWT_ALG_ES256K: return EVP_sha256();
	case JWT_ALG_HS384: case JWT_ALG_RS384: case JWT_ALG_PS384: case JWT_ALG_ES384: return EVP_sha384();
	case JWT_ALG_HS512: case JWT_ALG_RS512: case JWT_ALG_PS512: case JWT_ALG_ES512: return EVP_sha512();
	default: return NULL;
	}
}
int vh_alg_ecbits(int alg)
{
	switch (alg) {
	case JWT_ALG_ES256: case JWT_ALG_ES256K: return 256;
	case JWT_ALG_ES384: return 384;
	case JWT_ALG_ES512: return 521;
	default: return 0;
	}
}

/* --------------------------------------------------------------- key zoo */
static const char *crv_ossl(const char *crv)
{
	if (!strcmp(crv, "P-256")) return "prime256v1";
	if (!strcmp(crv, "P-384")) return "secp384r1";
	if (!strcmp(crv, "P-521")) return "secp521r1";
	return crv;
}
int vh_key_gen(vh_key_t *k, const char *spec, vh_rng_t *r)
{
	memset(k, 0, sizeof(*k));
	snprintf(k->name, sizeof(k->name), "%s", spec);
	if (!strncmp(spec, "oct:", 4) || !strncmp(spec, "octpad:", 7) || !strncmp(spec, "octjunk:", 8) || !strncmp(spec, "octnl:", 6) || !strncmp(spec, "octz:", 5)) {
		k->kind = VH_K_OCT;
		k->padmode = spec[3] == ':' || spec[3] == 'n' || spec[3] == 'z' ? 0 : spec[3] == 'p' ? 1 : 2;
		k->octlen = (size_t)atoi(strchr(spec, ':') + 1);
		k->oct = malloc(k->octlen + 1);
		vh_rand_bytes(r, k->oct, k->octlen);
		/* octnl: key bytes that end in a line feed (as `echo secret | base64` makes them); octz: first and last byte zero */
		if (spec[3] == 'n' && k->octlen) k->oct[k->octlen - 1] = 0x0a;
		if (spec[3] == 'z' && k->octlen) k->oct[0] = k->oct[k->octlen - 1] = 0;
		k->bits = (int)k->octlen * 8;
		return 0;
	}
	if (!strncmp(spec, "rsa:", 4) || !strncmp(spec, "rsapss:", 7)) {
		int pss = spec[3] != ':';
		int bits = atoi(strchr(spec, ':') + 1);
		/* JWK carries no RSA vs RSA-PSS distinction (kty "RSA"); the zoo therefore holds plain RSA keys for both */
		EVP_PKEY_CTX *c = EVP_PKEY_CTX_new_from_name(NULL, "RSA", NULL);
		k->kind = pss ? VH_K_RSAPSS : VH_K_RSA;
		if (!c || EVP_PKEY_keygen_init(c) <= 0 || EVP_PKEY_CTX_set_rsa_keygen_bits(c, bits) <= 0 ||
		    EVP_PKEY_keygen(c, &k->pkey) <= 0) {
			EVP_PKEY_CTX_free(c);
			return -1;
		}
		EVP_PKEY_CTX_free(c);
		k->bits = EVP_PKEY_get_bits(k->pkey);
		return 0;
	}
	if (!strncmp(spec, "rsafile:", 8)) {
		/* RSA keys too large to generate per run (more than 8192 bits): read from /verif/data/keys/rsa<bits>.pem */
		char path[512];
		BIO *bio;
		snprintf(path, sizeof(path), "%s/keys/rsa%d.pem", VH_DATA_DIR, atoi(spec + 8));
		bio = BIO_new_file(path, "r");
		k->kind = VH_K_RSA;
		if (!bio) return -1;
		k->pkey = PEM_read_bio_PrivateKey(bio, NULL, NULL, NULL);
		BIO_free(bio);
		if (!k->pkey) return -1;
		k->bits = EVP_PKEY_get_bits(k->pkey);
		return 0;
	}
	if (!strncmp(spec, "ec:", 3)) {
		k->kind = VH_K_EC;
		snprintf(k->crv, sizeof(k->crv), "%s", spec + 3);
		k->pkey = EVP_EC_gen(crv_ossl(k->crv));
		if (!k->pkey)
			return -1;
		k->bits = EVP_PKEY_get_bits(k->pkey);
		return 0;
	}
	if (!strncmp(spec, "okp:", 4)) {
		k->kind = VH_K_OKP;
		snprintf(k->crv, sizeof(k->crv), "%s", spec + 4);
		k->pkey = EVP_PKEY_Q_keygen(NULL, NULL, !strcmp(k->crv, "Ed25519") ? "ED25519" :
					    !strcmp(k->crv, "Ed448") ? "ED448" : k->crv);
		if (!k->pkey)
			return -1;
		k->bits = EVP_PKEY_get_bits(k->pkey);
		return 0;
	}
	return -1;
}
void vh_key_free(vh_key_t *k)
{
	EVP_PKEY_free(k->pkey);
	free(k->oct);
	memset(k, 0, sizeof(*k));
}

typedef struct { char *p; size_t len, cap; } sbuf_t;
static void sb_add(sbuf_t *b, const char *s)
{
	size_t n = strlen(s);
	if (b->len + n + 1 > b->cap) {
		b->cap = (b->len + n + 1) * 2;
		b->p = realloc(b->p, b->cap);
	}
	memcpy(b->p + b->len, s, n + 1);
	b->len += n;
}
static void sb_member_b64(sbuf_t *b, const char *name, const unsigned char *bin, size_t n)
{
	char *e = vh_b64u_enc_dup(bin, n);
	sb_add(b, ",\""); sb_add(b, name); sb_add(b, "\":\""); sb_add(b, e); sb_add(b, "\"");
	free(e);
}
static int sb_member_bn(sbuf_t *b, const char *name, EVP_PKEY *pk, const char *param, int width)
{
	BIGNUM *bn = NULL;
	unsigned char buf[4200];	/* RSA members up to 32768 bits */
	int n;
	if (!EVP_PKEY_get_bn_param(pk, param, &bn))
		return -1;
	if (width > 0)
		n = BN_bn2binpad(bn, buf, width);
	else
		n = BN_bn2bin(bn, buf);
	BN_free(bn);
	if (n < 0)
		return -1;
	sb_member_b64(b, name, buf, (size_t)n);
	return 0;
}
char *vh_key_jwk(const vh_key_t *k, int priv, const char *alg, const char *kid, const char *extra)
{
	sbuf_t b = { 0 };
	sb_add(&b, "{\"kty\":");
	switch (k->kind) {
	case VH_K_OCT:
		sb_add(&b, "\"oct\"");
		if (k->padmode && k->octlen % 3) {
			/* the same key bytes, spelled with '=' padding (and, mode 2, further characters after it): whatever a reader makes of
			 * the spelling, the key has octlen bytes */
			char *e = vh_b64u_enc_dup(k->oct, k->octlen);
			sb_add(&b, ",\"k\":\""); sb_add(&b, e); sb_add(&b, k->octlen % 3 == 1 ? "==" : "=");
			if (k->padmode == 2) sb_add(&b, "QUFBQUFBQUFBQUFBQUFBQUFBQUFBQUFBQUFBQUFBQUFBQUFBQUFBQUFBQUFBQUFBQUFBQUFBQUFBQUFB");
			sb_add(&b, "\"");
			free(e);
		} else
			sb_member_b64(&b, "k", k->oct, k->octlen);
		break;
	case VH_K_RSA: case VH_K_RSAPSS:
		sb_add(&b, "\"RSA\"");
		sb_member_bn(&b, "n", k->pkey, OSSL_PKEY_PARAM_RSA_N, 0);
		sb_member_bn(&b, "e", k->pkey, OSSL_PKEY_PARAM_RSA_E, 0);
		if (priv) {
			sb_member_bn(&b, "d", k->pkey, OSSL_PKEY_PARAM_RSA_D, 0);
			sb_member_bn(&b, "p", k->pkey, OSSL_PKEY_PARAM_RSA_FACTOR1, 0);
			sb_member_bn(&b, "q", k->pkey, OSSL_PKEY_PARAM_RSA_FACTOR2, 0);
			sb_member_bn(&b, "dp", k->pkey, OSSL_PKEY_PARAM_RSA_EXPONENT1, 0);
			sb_member_bn(&b, "dq", k->pkey, OSSL_PKEY_PARAM_RSA_EXPONENT2, 0);
			sb_member_bn(&b, "qi", k->pkey, OSSL_PKEY_PARAM_RSA_COEFFICIENT1, 0);
		}
		break;
	case VH_K_EC: {
		int w = (k->bits + 7) / 8;
		sb_add(&b, "\"EC\",\"crv\":\""); sb_add(&b, k->crv); sb_add(&b, "\"");
		sb_member_bn(&b, "x", k->pkey, OSSL_PKEY_PARAM_EC_PUB_X, w);
		sb_member_bn(&b, "y", k->pkey, OSSL_PKEY_PARAM_EC_PUB_Y, w);
		if (priv)
			sb_member_bn(&b, "d", k->pkey, OSSL_PKEY_PARAM_PRIV_KEY, w);
		break;
	}
	case VH_K_OKP: {
		unsigned char buf[64];
		size_t n = sizeof(buf);
		sb_add(&b, "\"OKP\",\"crv\":\""); sb_add(&b, k->crv); sb_add(&b, "\"");
		if (EVP_PKEY_get_raw_public_key(k->pkey, buf, &n))
			sb_member_b64(&b, "x", buf, n);
		if (priv) {
			n = sizeof(buf);
			if (EVP_PKEY_get_raw_private_key(k->pkey, buf, &n))
				sb_member_b64(&b, "d", buf, n);
		}
		break;
	}
	}
	if (alg) { sb_add(&b, ",\"alg\":\""); sb_add(&b, alg); sb_add(&b, "\""); }
	if (kid) { sb_add(&b, ",\"kid\":\""); sb_add(&b, kid); sb_add(&b, "\""); }
	if (extra && extra[0]) { sb_add(&b, ","); sb_add(&b, extra); }
	sb_add(&b, "}");
	return b.p;
}
const char *vh_load_kid;	/* kid given to keys loaded through vh_key_load (NULL: none) */
const jwk_item_t *vh_key_load(const vh_key_t *k, int priv, const char *alg, jwk_set_t **set)
{
	char *txt = vh_key_jwk(k, priv, alg, vh_load_kid, NULL);
	size_t before = *set ? jwks_item_count(*set) : 0;
	jwk_set_t *s = jwks_load(*set, txt);
	const jwk_item_t *it;
	free(txt);
	if (!s)
		return NULL;
	*set = s;
	it = jwks_item_get(s, before);
	return it;
}

/* ------------------------------------------------------ reference crypto */
void vh_ref_hmac(int alg, const void *key, size_t keylen, const void *msg, size_t n, unsigned char *out, size_t *outlen)
{
	unsigned int l = 0;
	static const unsigned char z = 0;
	HMAC(vh_alg_md(alg), keylen ? key : &z, (int)keylen, msg, n, out, &l);
	*outlen = l;
}
static int fam_fits(const vh_key_t *k, int alg)
{
	switch (vh_alg_family(alg)) {
	case VH_FAM_HS: return k->kind == VH_K_OCT;
	case VH_FAM_RS: return k->kind == VH_K_RSA || k->kind == VH_K_RSAPSS;
	case VH_FAM_PS: return k->kind == VH_K_RSA || k->kind == VH_K_RSAPSS;
	case VH_FAM_ES:
		if (k->kind != VH_K_EC || k->bits != vh_alg_ecbits(alg))
			return 0;
		/* generous reading: the statements only require matching size (ES256/ES256K: any 256-bit curve) */
		return 1;
	case VH_FAM_ED: return k->kind == VH_K_OKP && (!strcmp(k->crv, "Ed25519") || !strcmp(k->crv, "Ed448"));
	default: return 0;
	}
}
unsigned char *vh_ref_sign(const vh_key_t *k, int alg, const void *msg, size_t n, size_t *siglen)
{
	vh_fam_t fam = vh_alg_family(alg);
	unsigned char *sig = NULL;
	if (fam == VH_FAM_HS) {
		if (k->kind != VH_K_OCT)
			return NULL;
		sig = malloc(EVP_MAX_MD_SIZE);
		vh_ref_hmac(alg, k->oct, k->octlen, msg, n, sig, siglen);
		return sig;
	}
	if (!k->pkey)
		return NULL;
	EVP_MD_CTX *c = EVP_MD_CTX_new();
	EVP_PKEY_CTX *pc = NULL;
	size_t sl = 0;
	if (EVP_DigestSignInit(c, &pc, fam == VH_FAM_ED ? NULL : vh_alg_md(alg), NULL, k->pkey) != 1)
		goto fail;
	if (fam == VH_FAM_PS) {
		if (EVP_PKEY_CTX_set_rsa_padding(pc, RSA_PKCS1_PSS_PADDING) <= 0 ||
		    EVP_PKEY_CTX_set_rsa_pss_saltlen(pc, RSA_PSS_SALTLEN_DIGEST) <= 0 ||
		    EVP_PKEY_CTX_set_rsa_mgf1_md(pc, vh_alg_md(alg)) <= 0)
			goto fail;
	}
	if (EVP_DigestSign(c, NULL, &sl, msg, n) != 1)
		goto fail;
	sig = malloc(sl + 1);
	if (EVP_DigestSign(c, sig, &sl, msg, n) != 1)
		goto fail;
	EVP_MD_CTX_free(c);
	if (fam == VH_FAM_ES) {
		const unsigned char *p = sig;
		ECDSA_SIG *es = d2i_ECDSA_SIG(NULL, &p, (long)sl);
		int w = (k->bits + 7) / 8;
		unsigned char *raw;
		if (!es) { free(sig); return NULL; }
		raw = malloc((size_t)w * 2);
		if (BN_bn2binpad(ECDSA_SIG_get0_r(es), raw, w) < 0 || BN_bn2binpad(ECDSA_SIG_get0_s(es), raw + w, w) < 0) {
			ECDSA_SIG_free(es); free(sig); free(raw);
			return NULL;
		}
		ECDSA_SIG_free(es);
		free(sig);
		*siglen = (size_t)w * 2;
		return raw;
	}
	*siglen = sl;
	return sig;
fail:
	EVP_MD_CTX_free(c);
	free(sig);
	return NULL;
}
int vh_ref_verify(const vh_key_t *k, int alg, const void *msg, size_t n, const unsigned char *sig, size_t siglen)
{
	vh_fam_t fam = vh_alg_family(alg);
	int ok = 0;
	if (fam == VH_FAM_NONE || !fam_fits(k, alg))
		return 0;
	if (fam == VH_FAM_HS) {
		unsigned char mac[EVP_MAX_MD_SIZE];
		size_t ml;
		vh_ref_hmac(alg, k->oct, k->octlen, msg, n, mac, &ml);
		return ml == siglen && !CRYPTO_memcmp(mac, sig, ml);
	}
	unsigned char *der = NULL;
	if (fam == VH_FAM_ES) {
		size_t w = (size_t)(k->bits + 7) / 8;
		ECDSA_SIG *es;
		int dl;
		unsigned char *p;
		if (siglen != 2 * w)
			return 0;
		es = ECDSA_SIG_new();
		ECDSA_SIG_set0(es, BN_bin2bn(sig, (int)w, NULL), BN_bin2bn(sig + w, (int)w, NULL));
		dl = i2d_ECDSA_SIG(es, NULL);
		p = der = malloc((size_t)dl + 1);
		dl = i2d_ECDSA_SIG(es, &p);
		ECDSA_SIG_free(es);
		sig = der;
		siglen = (size_t)dl;
	}
	EVP_MD_CTX *c = EVP_MD_CTX_new();
	EVP_PKEY_CTX *pc = NULL;
	if (EVP_DigestVerifyInit(c, &pc, fam == VH_FAM_ED ? NULL : vh_alg_md(alg), NULL, k->pkey) == 1) {
		int good = 1;
		if (fam == VH_FAM_PS)
			good = EVP_PKEY_CTX_set_rsa_padding(pc, RSA_PKCS1_PSS_PADDING) > 0 &&
			       EVP_PKEY_CTX_set_rsa_pss_saltlen(pc, RSA_PSS_SALTLEN_AUTO) > 0 &&
			       EVP_PKEY_CTX_set_rsa_mgf1_md(pc, vh_alg_md(alg)) > 0;
		if (good)
			ok = EVP_DigestVerify(c, sig, siglen, msg, n) == 1;
	}
	EVP_MD_CTX_free(c);
	free(der);
	return ok;
}
char *vh_ref_token(const vh_key_t *k, int alg, const char *hdr_json, const char *payload_json)
{
	char *h = vh_b64u_enc_dup(hdr_json, strlen(hdr_json));
	char *p = vh_b64u_enc_dup(payload_json, strlen(payload_json));
	size_t hl = strlen(h), pl = strlen(p), sl = 0;
	unsigned char *sig = NULL;
	char *tok, *s64 = NULL;
	char *msg = malloc(hl + pl + 2);
	sprintf(msg, "%s.%s", h, p);
	if (alg != JWT_ALG_NONE) {
		sig = vh_ref_sign(k, alg, msg, hl + pl + 1, &sl);
		if (!sig) { free(h); free(p); free(msg); return NULL; }
		s64 = vh_b64u_enc_dup(sig, sl);
	}
	tok = malloc(hl + pl + (s64 ? strlen(s64) : 0) + 3);
	sprintf(tok, "%s.%s", msg, s64 ? s64 : "");
	free(h); free(p); free(msg); free(sig); free(s64);
	return tok;
}
/* minimal scan for "alg":"<name>" in a decoded header; the reference uses jansson-free logic:
 * find the top-level member named alg.  For the harness's purposes (headers we generate or
 * mutate) a small tokenizer is sufficient and independent of libjwt. */
static int ref_header_alg(const char *js, size_t n)
{
	/* find "alg" key at depth 1 */
	int depth = 0;
	size_t i = 0;
	while (i < n) {
		char c = js[i];
		if (c == '"') {
			size_t st = ++i;
			while (i < n && js[i] != '"') { if (js[i] == '\\') i++; i++; }
			size_t en = i++;
			if (depth == 1 && en - st == 3 && !memcmp(js + st, "alg", 3)) {
				size_t j = i;
				while (j < n && (js[j] == ' ' || js[j] == '\t' || js[j] == '\n' || js[j] == '\r')) j++;
				if (j < n && js[j] == ':') {
					j++;
					while (j < n && (js[j] == ' ' || js[j] == '\t' || js[j] == '\n' || js[j] == '\r')) j++;
					if (j < n && js[j] == '"') {
						size_t vs = ++j;
						while (j < n && js[j] != '"') { if (js[j] == '\\') return -1; j++; }
						for (int a = 0; a < VH_NALG; a++)
							if (strlen(alg_names[a]) == j - vs && !memcmp(alg_names[a], js + vs, j - vs))
								return a;
					}
					return -1;
				}
			}
			continue;
		}
		if (c == '{' || c == '[') depth++;
		else if (c == '}' || c == ']') depth--;
		i++;
	}
	return -1;
}
int vh_ref_token_valid(const vh_key_t *k, const char *token, int *alg_out)
{
	const char *d1 = strchr(token, '.');
	const char *d2 = d1 ? strchr(d1 + 1, '.') : NULL;
	size_t tl = strlen(token);
	int alg, ok;
	long hl, sl;
	if (alg_out) *alg_out = -1;
	if (!d1 || !d2)
		return 0;
	unsigned char *hb = malloc(tl + 4), *sb = malloc(tl + 4);
	hl = vh_b64u_dec(token, (size_t)(d1 - token), hb);
	if (hl <= 0) { free(hb); free(sb); return 0; }
	alg = ref_header_alg((char *)hb, (size_t)hl);
	free(hb);
	if (alg_out) *alg_out = alg;
	if (alg <= 0) { free(sb); return 0; }
	sl = vh_b64u_dec(d2 + 1, strlen(d2 + 1), sb);
	if (sl <= 0) { free(sb); return 0; }
	ok = vh_ref_verify(k, alg, token, (size_t)(d2 - token), sb, (size_t)sl);
	free(sb);
	return ok;
}

/* -------------------------------------------------------------- provider */
const char *vh_prov_name(int i) { return i == 0 ? "openssl" : "gnutls"; }
void vh_set_prov(int i)
{
	if (jwt_set_crypto_ops(vh_prov_name(i)))
		vh_harness_fail("cannot select provider %s", vh_prov_name(i));
	if (strcmp(jwt_get_crypto_ops(), vh_prov_name(i)))
		vh_harness_fail("provider %s not in force after set", vh_prov_name(i));
}

/* ------------------------------------------------------------------ hook */
extern void (*jwt_verif_primitive_hook)(const char *site, int alg, const jwk_item_t *key) __attribute__((weak));
#define VH_RING 64
static __thread vh_hookrec_t ring[VH_RING];
static __thread int ring_n;
static void hook_cb(const char *site, int alg, const jwk_item_t *key)
{
	if (ring_n < VH_RING) {
		vh_hookrec_t *r = &ring[ring_n];
		snprintf(r->site, sizeof(r->site), "%s", site);
		r->alg = alg;
		r->kty = key ? (int)jwks_item_kty(key) : -1;
		r->key_alg = key ? (int)jwks_item_alg(key) : -1;
		r->bits = key ? jwks_item_key_bits(key) : -1;
		r->is_priv = key ? jwks_item_is_private(key) : -1;
	}
	ring_n++;
}
void vh_hook_install(void)
{
	if (&jwt_verif_primitive_hook)
		jwt_verif_primitive_hook = hook_cb;
}
int vh_hook_drain(vh_hookrec_t *out, int max)
{
	int n = ring_n;
	for (int i = 0; i < n && i < max && i < VH_RING; i++)
		out[i] = ring[i];
	ring_n = 0;
	return n;
}
void vh_put_hooks(FILE *f, int keyed)
{
	vh_hookrec_t h[VH_RING];
	int n = vh_hook_drain(h, VH_RING);
	fputs(keyed ? ",\"hooks\":[" : ",[", f);
	for (int i = 0; i < n && i < VH_RING; i++)
		fprintf(f, "%s[\"%s\",%d,%d,%d,%d]", i ? "," : "", h[i].site, h[i].alg, h[i].kty, h[i].key_alg, h[i].bits);
	fputs("]", f);
}

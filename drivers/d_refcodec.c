/* prints the reference base64url encoding of each hex line on stdin (self-check of the oracle) */
#include "vh.h"
int main(void)
{
	static char line[8192], out[8192];
	static unsigned char bin[4096];
	while (fgets(line, sizeof(line), stdin)) {
		size_t n = strcspn(line, "\r\n") / 2;
		for (size_t i = 0; i < n; i++) { unsigned v; sscanf(line + 2 * i, "%2x", &v); bin[i] = (unsigned char)v; }
		vh_b64u_enc(bin, n, out);
		puts(out);
	}
	return 0;
}

"""C06 — arbitrary token bytes: memory-safe, terminating, rejected unless well-formed."""
import json, os, subprocess, shutil, glob
import vf
from monitors import token_class

GEN = ["valid", "valid-odd", "bad-header-json", "bad-payload-json", "char-fault", "char-fault", "char-fault", "padding", "huge",
       "deep-nesting", "random-bytes", "random-alphabet", "binary-segments", "nul-inside", "segment-count", "alg-games",
       "length-classes", "std-alphabet", "whitespace", "tiny", "structured-signature"]


def judge(path):
    out = dict(tokens=0, verifies=0, accepts=0, cb=0, viol=[], samples=[], c={}, distinct=set())
    c = out["c"]
    with open(path, errors="replace") as fh:
        for line in fh:
            if not line.startswith("["):
                continue
            try:
                ev = json.loads(line)
            except Exception:
                continue
            if ev[0] == "STATS":
                out["tokens"] += ev[1]; out["verifies"] += ev[2]; out["accepts"] += ev[3]; out["cb"] += ev[4]
                for i, n in enumerate(ev[5:26]):
                    c["gen." + GEN[i]] = c.get("gen." + GEN[i], 0) + n
            elif ev[0] == "T":
                cls, mask, hx = ev[1], ev[2] & 0x3fffff, ev[3]
                if ev[2] & (1 << 31):
                    c["rejected_without_error_flag(C14)"] = c.get("rejected_without_error_flag(C14)", 0) + 1
                tok = bytes.fromhex(hx)
                verdict, why = token_class.classify(tok)
                out["distinct"].add((cls, why, mask != 0))
                if mask:
                    c["accepted_tokens"] = c.get("accepted_tokens", 0) + 1
                    c["accepted." + verdict] = c.get("accepted." + verdict, 0) + 1
                    if verdict == "malformed":
                        out["viol"].append(("accept-malformed:" + why, "jwt_checker_verify returned 0 for a string that is definitely not a well-formed token",
                                            dict(token_hex=hx[:4000], token_text=tok[:300].decode("latin-1"), accepting_checkers_mask=mask, reason=why)))
                else:
                    c["sampled_rejected." + verdict] = c.get("sampled_rejected." + verdict, 0) + 1
                if len(out["samples"]) < 2:
                    out["samples"].append(dict(generator=GEN[cls] if cls < 20 else "corpus", token=tok[:120].decode("latin-1"), accepted_mask=mask,
                                               classifier=[verdict, why]))
    return out


def merge(rep, results):
    for r in results:
        rep.evaluations += r["verifies"]
        rep.count("tokens", r["tokens"]); rep.count("verify_calls", r["verifies"]); rep.count("accepting_verifies", r["accepts"])
        rep.count("callback_invocations", r["cb"])
        rep.distinct |= r["distinct"]
        for k, what, wit in r["viol"]:
            rep.violation(k, what, wit)
        for s in r["samples"]:
            rep.sample(s)
        for k, v in r["c"].items():
            rep.count(k, v)


def fuzz(rep, rd, seed, runs, jobs, target="d_c06", dict_words=(), max_len=65536, seeds=()):
    """libFuzzer on the fuzz flavour; returns corpus dir.  Crashes become violations keyed by the sanitizer report."""
    fb = vf.driver(target, "fuzz", extra_flags="-DVH_FUZZ_MAIN")
    corpus = os.path.join(rd, "corpus"); os.makedirs(corpus, exist_ok=True)
    art = os.path.join(rd, "artifacts"); os.makedirs(art, exist_ok=True)
    for i, sd in enumerate(seeds):
        open(os.path.join(corpus, "seed%d" % i), "wb").write(sd)
    dpath = os.path.join(rd, "dict.txt")
    with open(dpath, "w") as fh:
        for w in dict_words:
            fh.write('"%s"\n' % w.replace("\\", "\\\\").replace('"', '\\"'))
    env = dict(os.environ)
    env.update(vf.SAN_ENV)
    env["ASAN_OPTIONS"] = env["ASAN_OPTIONS"].replace("exitcode=99", "exitcode=77")
    procs = []
    for j in range(jobs):
        cmd = [fb, corpus, "-runs=%d" % (runs // jobs), "-seed=%d" % (seed * 1000 + j + 1), "-max_len=%d" % max_len, "-dict=" + dpath,
               "-artifact_prefix=%s/j%d-" % (art, j), "-print_final_stats=1", "-timeout=30", "-rss_limit_mb=3000", "-detect_leaks=1",
               "-len_control=50", "-reload=0"]
        procs.append((j, subprocess.Popen(cmd, stdout=subprocess.DEVNULL, stderr=open(os.path.join(rd, "fuzz%d.log" % j), "w"), env=env)))
    execs = 0
    for j, p in procs:
        try:
            rc = p.wait(timeout=3000)
        except subprocess.TimeoutExpired:
            p.kill(); rc = -9
        log = open(os.path.join(rd, "fuzz%d.log" % j), errors="replace").read()
        import re
        m = re.search(r"stat::number_of_executed_units: (\d+)", log)
        if m:
            execs += int(m.group(1))
        if rc != 0:
            key = vf.san_key(log) or ("fuzz-exit:%d" % rc)
            arts = glob.glob("%s/j%d-*" % (art, j))
            wit = dict(log_tail=log[-3000:], artifact_hex=(open(arts[0], "rb").read()[:4000].hex() if arts else None))
            if "ERROR: libFuzzer: timeout" in log:
                key = "hang:libfuzzer"
            rep.violation("fuzz:" + key, "libFuzzer run died: " + key, wit)
    rep.count("libfuzzer_executions", execs)
    rep.evaluations += execs * 22   # every fuzz input is shown to the 22 checkers
    rep.count("libfuzzer_corpus_files", len(os.listdir(corpus)))
    return corpus


DICT = ["none", "HS256", "HS384", "HS512", "RS256", "ES256", "EdDSA", "PS256", "ES256K", "alg", "typ", "JWT", "eyJ", "e30", "{\"alg\":\"",
        "\"}", ".", "..", "=", "==", "exp", "nbf", "iss", "c06", "eyJhbGciOiJub25lIn0", "eyJhbGciOiJIUzI1NiJ9", "eyJpc3MiOiJjMDYifQ"]


def run(tier, seed, replay):
    rep = vf.Report("C06", tier, seed)
    rep.rule = ("grammar-derived near-valid tokens (21 generator classes: valid, malformed JSON, character faults, padding, huge/deep "
                "segments, random bytes, NUL inside, segment-count games, ...) and coverage-guided libFuzzer inputs, each shown to 22 "
                "checkers (2 providers x {no key, HS256, RS256, PS256, ES256, ES384, ES512, ES256K, Ed25519, Ed448}) with a reading callback; evaluations = verify calls; "
                "distinct = distinct (generator class, classifier reason, accepted?) tuples among logged tokens")
    rep.assumptions = ["ASan/UBSan/LSan see only libjwt's own code (jansson/OpenSSL/GnuTLS are uninstrumented)",
                       "'definitely malformed' is judged by a conservative classifier (monitors/token_class.py); NUL-prefix and over-deep documents are ambiguous"]
    rd = vf.run_dir("C06")
    b = vf.driver("d_c06", "asan")
    thorough = tier == "thorough"
    if replay and (replay.get("witness") or {}).get("token_hex"):
        cd = os.path.join(rd, "replay_corpus"); os.makedirs(cd)
        open(os.path.join(cd, "t"), "wb").write(bytes.fromhex(replay["witness"]["token_hex"]))
        outs, crashes = vf.run_shards(b, ["--mode", "corpus", "--arg1", cd, "--seed", seed], 1, rd)
        rep.crash_violations(crashes)
        merge(rep, [judge(p) for p in outs])
        return rep
    n = 500000 if thorough else 30000
    outs, crashes = vf.run_shards(b, ["--mode", "gen", "--n", n, "--seed", seed, "--tier", tier], vf.NCPU, rd, timeout=3000)
    rep.crash_violations(crashes)
    merge(rep, vf.pmap(judge, [(p,) for p in outs]))
    # coverage-guided part
    corpus = fuzz(rep, rd, seed, 20000000 if thorough else 400000, vf.NCPU, dict_words=DICT,
                  seeds=[b"eyJhbGciOiJub25lIn0.eyJpc3MiOiJjMDYifQ.", b"eyJhbGciOiJIUzI1NiJ9.eyJpc3MiOiJjMDYifQ.AAAA"])
    outs2, crashes2 = vf.run_shards(b, ["--mode", "corpus", "--arg1", corpus, "--seed", seed], vf.NCPU, rd, tag="c", timeout=3000)
    rep.crash_violations(crashes2, prefix="corpus:")
    merge(rep, vf.pmap(judge, [(p,) for p in outs2]))
    # the same guarantee while the crypto library's own allocations fail (OpenSSL CRYPTO_set_mem_functions / gnutls_malloc pointers):
    # verify still returns, without memory error or leak, for valid and invalid tokens of every algorithm
    fb = vf.driver("d_c01f", "asan")
    fouts, fcr = vf.run_shards(fb, ["--mode", "verify", "--seed", seed, "--tier", tier], vf.NCPU, rd, tag="pf", timeout=3000,
                               env={"ASAN_OPTIONS": vf.SAN_ENV["ASAN_OPTIONS"] + ":fast_unwind_on_malloc=0:malloc_context_size=14"})
    rep.crash_violations(fcr, prefix="provider-fault:")
    for pth in fouts:
        with open(pth, errors="replace") as fh:
            for line in fh:
                if line.startswith('["N"'):
                    try:
                        ev = json.loads(line)
                    except Exception:
                        continue
                    rep.count("verifies_under_provider_allocation_failure", ev[8])
                    rep.evaluations += ev[8]
    vf.need(rep, rep.counters.get("verifies_under_provider_allocation_failure", 0) > 3000, "provider fault stage did not run")
    if thorough:
        # uninitialised reads are invisible to ASan/UBSan: a slice of the generator under valgrind memcheck on the plain build
        pb = vf.driver("d_c06", "plain")
        vouts, vcr = vf.run_shards("valgrind", ["-q", "--error-exitcode=97", "--num-callers=30", pb, "--mode", "gen", "--n", 4800, "--seed", seed + 7],
                                   vf.NCPU, rd, tag="vg", timeout=3400, max_restarts=3)
        rep.crash_violations(vcr, prefix="memcheck:")
        before = rep.counters.get("tokens", 0)
        merge(rep, vf.pmap(judge, [(p,) for p in vouts]))
        rep.count("tokens_under_memcheck", rep.counters.get("tokens", 0) - before)
        vf.need(rep, rep.counters.get("tokens_under_memcheck", 0) > 1000, "memcheck stage did not run")
    c = rep.counters
    vf.need(rep, c.get("accepted.ok", 0) > 50, "too few well-formed tokens accepted (positive control)")
    vf.need(rep, c.get("callback_invocations", 0) > 100, "reading callback hardly ran")
    vf.need(rep, c.get("libfuzzer_executions", 0) > 1000, "libFuzzer did not run")
    return rep

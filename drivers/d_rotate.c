/* C01 (key rotation histories): a checker must judge a token by the key it holds *now*.
 * For each provider x key type: load key A, verify A's and B's tokens, free the keyring, load key B (which typically
 * lands on the same heap addresses in a non-ASan build), verify again; also two keyrings alive at once.
 * Run on the plain flavour (real allocator address reuse) and on the asan flavour.
 *   ["ROT", prov, key, round, step, expect_accept, rc]
 */
#include "vh.h"

static int nev, nbad;
static void check(int prov, const char *key, int round, const char *step, const jwk_item_t *item, int alg, const char *tok, int expect_accept)
{
	jwt_checker_t *c = jwt_checker_new();
	int rc;
	if (jwt_checker_setkey(c, (jwt_alg_t)alg, item)) vh_harness_fail("setkey");
	rc = jwt_checker_verify(c, tok);
	nev++;
	if ((rc == 0) != (expect_accept != 0)) nbad++;
	printf("[\"ROT\",%d,\"%s\",%d,\"%s\",%d,%d]\n", prov, key, round, step, expect_accept, rc);
	jwt_checker_free(c);
}

int main(int argc, char **argv)
{
	vh_args_t a;
	vh_rng_t rng;
	static const char *SPECS[] = { "oct:32", "rsa:2048", "ec:P-256", "ec:P-384", "ec:P-521", "okp:Ed25519", "okp:Ed448" };
	static const int ALGS[] = { JWT_ALG_HS256, JWT_ALG_RS256, JWT_ALG_ES256, JWT_ALG_ES384, JWT_ALG_ES512, JWT_ALG_EDDSA, JWT_ALG_EDDSA };
	int rounds;
	vh_parse_args(argc, argv, &a);
	rounds = a.n > 0 ? (int)a.n : 6;
	vh_rng_seed(&rng, a.seed, 4711);
	for (int prov = 0; prov < 2; prov++)
	for (size_t ki = 0; ki < sizeof(SPECS) / sizeof(*SPECS); ki++) {
		vh_key_t A, B;
		char hdr[64], *ta, *tb;
		if (!vh_mine(&a, (long)(prov * 7 + (int)ki))) continue;
		vh_case_begin((long)(prov * 7 + (int)ki), "\"prov\":%d,\"key\":\"%s\"", prov, SPECS[ki]);
		vh_set_prov(prov);
		if (vh_key_gen(&A, SPECS[ki], &rng) || vh_key_gen(&B, SPECS[ki], &rng)) vh_harness_fail("keygen");
		snprintf(hdr, sizeof(hdr), "{\"alg\":\"%s\",\"typ\":\"JWT\"}", vh_alg_name(ALGS[ki]));
		ta = vh_ref_token(&A, ALGS[ki], hdr, "{\"iss\":\"A\"}");
		tb = vh_ref_token(&B, ALGS[ki], hdr, "{\"iss\":\"B\"}");
		for (int r = 0; r < rounds; r++) {
			jwk_set_t *s1 = NULL, *s2 = NULL;
			int pub = A.kind != VH_K_OCT && (r & 1);	/* alternate private/public forms */
			const jwk_item_t *ia = vh_key_load(&A, !pub, NULL, &s1), *ib;
			check(prov, SPECS[ki], r, "A-holds:tokA", ia, ALGS[ki], ta, 1);
			check(prov, SPECS[ki], r, "A-holds:tokB", ia, ALGS[ki], tb, 0);
			jwks_free(s1);
			/* rotate: the new keyring usually reuses the freed blocks */
			ib = vh_key_load(&B, !pub, NULL, &s2);
			check(prov, SPECS[ki], r, "rotated-to-B:tokA", ib, ALGS[ki], ta, 0);
			check(prov, SPECS[ki], r, "rotated-to-B:tokB", ib, ALGS[ki], tb, 1);
			/* both alive */
			s1 = NULL; ia = vh_key_load(&A, !pub, NULL, &s1);
			check(prov, SPECS[ki], r, "both-alive:A:tokA", ia, ALGS[ki], ta, 1);
			check(prov, SPECS[ki], r, "both-alive:B:tokA", ib, ALGS[ki], ta, 0);
			check(prov, SPECS[ki], r, "both-alive:A:tokB", ia, ALGS[ki], tb, 0);
			check(prov, SPECS[ki], r, "both-alive:B:tokB", ib, ALGS[ki], tb, 1);
			jwks_free(s2); jwks_free(s1);
			/* same set object, item replaced: load B into a set that held A after freeing A's item */
			s1 = NULL; ia = vh_key_load(&A, !pub, NULL, &s1);
			check(prov, SPECS[ki], r, "set-reuse:A:tokA", ia, ALGS[ki], ta, 1);
			jwks_item_free(s1, 0);
			ib = vh_key_load(&B, !pub, NULL, &s1);
			check(prov, SPECS[ki], r, "set-reuse:B:tokA", ib, ALGS[ki], ta, 0);
			check(prov, SPECS[ki], r, "set-reuse:B:tokB", ib, ALGS[ki], tb, 1);
			jwks_free(s1);
		}
		free(ta); free(tb);
		vh_key_free(&A); vh_key_free(&B);
	}
	printf("[\"STATS\",%d,%d]\n", nev, nbad);
	return 0;
}

/* C01: no token is accepted without a valid signature by the configured key.
 * For each provider x key x admissible alg x base token (harness-signed / libjwt-signed) x pin route:
 * apply every mutation class and log ["M", idx, class, variant, refvalid, rc].  The monitor asserts rc==0 => refvalid.
 * --arg1 "keys=oct:64,rsa:2048,..." ; thorough widens sampled positions.
 */
#include "vh.h"
#include <openssl/bn.h>
#include <openssl/ec.h>
#include <openssl/ecdsa.h>
#include <openssl/x509.h>
#include <openssl/core_names.h>

#define MAXK 24
static vh_key_t KA[MAXK], KB[MAXK];	/* two independent keys per spec */
static int nkeys;
static vh_rng_t rng;
static vh_args_t args;
static long cur_idx;
static unsigned long n_events, n_accept;
static jwt_checker_t *chk2[2];
static jwt_checker_t *chkp[2];	/* the same pin, but holding the PRIVATE form of the key (a private JWK verifies as well) */
static const vh_key_t *cur_key;
static int classes_seen[64];

static const char B64A[] = "ABCDEFGHIJKLMNOPQRSTUVWXYZabcdefghijklmnopqrstuvwxyz0123456789-_";

enum { M_BASE = 0, M_SUBST_H, M_SUBST_P, M_SUBST_S, M_BITFLIP, M_TRUNC_CH, M_TRUNC_BY, M_EXT_CH, M_EXT_BY, M_PAD,
       M_STDALPHA, M_XPL_PAYLOAD, M_XPL_KEY, M_XPL_TYPE, M_SIBLING, M_EC_CORNER, M_CONST, M_EMPTY, M_SEGS, M_CTRL,
       M_SWAP_PAYLOAD, M_HS_ATTACK, M_HDR_REWRITE, M_NCLASS };
static const char *MNAME[M_NCLASS] = { "base", "subst-header", "subst-payload", "subst-sig", "sig-bitflip", "trunc-chars",
	"trunc-bytes", "extend-chars", "extend-bytes", "padding", "std-alphabet", "sig-from-other-payload", "sig-from-other-key",
	"sig-from-other-keytype", "sibling-alg-sig", "ecdsa-corner", "constant-sig", "empty-sig", "extra-segments", "control-bytes",
	"payload-swap", "hs-attacker-key", "header-rewrite" };

static void try_token(int cls, int variant, const char *tok)
{
	int refvalid = vh_ref_token_valid(cur_key, tok, NULL);
	int rc[2], ef[2];
	for (int p = 0; p < 2; p++) {
		vh_set_prov(p);
		rc[p] = jwt_checker_verify(chk2[p], tok);
		ef[p] = jwt_checker_error(chk2[p]);
		jwt_checker_error_clear(chk2[p]);
		if (rc[p] == 0) n_accept++;
	}
	n_events++;
	classes_seen[cls]++;
	/* log everything that matters: accepted events, disagreements and a thin sample of the rest */
	if (rc[0] == 0 || rc[1] == 0 || refvalid || (n_events % 97) == 0 || args.only >= 0) {
		printf("[\"M\",%ld,%d,%d,%d,%d,%d", cur_idx, cls, variant, refvalid, rc[0], rc[1]);
		if (((rc[0] == 0 || rc[1] == 0) && !refvalid) || rc[0] != rc[1] || args.only >= 0) { printf(","); vh_put_jstr(stdout, tok); }
		printf("]\n");
	}
	(void)ef;
	/* base tokens and a sample of the mutants: once more through the checker that holds the private JWK, then again through the
	 * public one (what a verification with one form of the key leaves behind must not matter to the next) */
	if (chkp[0] && (cls == M_BASE || (n_events % 7) == 0)) {
		int rp[2], ra[2];
		for (int p = 0; p < 2; p++) {
			vh_set_prov(p);
			rp[p] = jwt_checker_verify(chkp[p], tok); jwt_checker_error_clear(chkp[p]);
			ra[p] = jwt_checker_verify(chk2[p], tok); jwt_checker_error_clear(chk2[p]);
		}
		if (rp[0] == 0 || rp[1] == 0 || ra[0] != rc[0] || ra[1] != rc[1] || cls == M_BASE || args.only >= 0) {
			printf("[\"MP\",%ld,%d,%d,%d,%d,%d,%d,%d", cur_idx, cls, variant, refvalid, rp[0], rp[1], ra[0], ra[1]);
			if (args.only >= 0 || ((rp[0] == 0 || rp[1] == 0) && !refvalid)) { printf(","); vh_put_jstr(stdout, tok); }
			printf("]\n");
		}
	}
}

static char *join3(const char *h, const char *p, const char *s)
{
	char *t = malloc(strlen(h) + strlen(p) + strlen(s) + 3);
	sprintf(t, "%s.%s.%s", h, p, s);
	return t;
}

static void subst_field(int cls, const char *h, const char *p, const char *s, int field, int maxpos)
{
	const char *f = field == 0 ? h : field == 1 ? p : s;
	size_t n = strlen(f);
	char *copy = strdup(f);
	size_t step = (maxpos > 0 && n > (size_t)maxpos) ? n / (size_t)maxpos : 1;
	for (size_t i = 0; i < n; i += step) {
		size_t pos = step > 1 ? i + vh_below(&rng, step) : i;
		if (pos >= n) pos = n - 1;
		char orig = copy[pos], c;
		do { c = B64A[vh_below(&rng, 64)]; } while (c == orig);
		copy[pos] = c;
		char *t = field == 0 ? join3(copy, p, s) : field == 1 ? join3(h, copy, s) : join3(h, p, copy);
		try_token(cls, (int)pos, t);
		free(t);
		copy[pos] = orig;
	}
	/* always the first and last character */
	if (n) {
		for (int e = 0; e < 2; e++) {
			size_t pos = e ? n - 1 : 0;
			char orig = copy[pos];
			copy[pos] = orig == 'A' ? 'B' : 'A';
			char *t = field == 0 ? join3(copy, p, s) : field == 1 ? join3(h, copy, s) : join3(h, p, copy);
			try_token(cls, (int)pos, t);
			free(t);
			copy[pos] = orig;
		}
	}
	free(copy);
}

static void with_sig_bytes(int cls, int variant, const char *h, const char *p, const unsigned char *sig, size_t sl)
{
	char *s64 = vh_b64u_enc_dup(sig, sl);
	char *t = join3(h, p, s64);
	try_token(cls, variant, t);
	free(t); free(s64);
}

static void ec_corners(const char *h, const char *p, const unsigned char *sig, size_t sl, const vh_key_t *k, int alg)
{
	size_t w = sl / 2;
	unsigned char buf[300];
	BIGNUM *n = BN_new(), *r = BN_bin2bn(sig, (int)w, NULL), *s = BN_bin2bn(sig + w, (int)w, NULL), *t = BN_new();
	char gname[64]; size_t gl = 0;
	EC_GROUP *g = NULL;
	if (EVP_PKEY_get_utf8_string_param(k->pkey, OSSL_PKEY_PARAM_GROUP_NAME, gname, sizeof(gname), &gl))
		g = EC_GROUP_new_by_curve_name(OBJ_sn2nid(gname));
	if (!g) goto out;
	EC_GROUP_get_order(g, n, NULL);
	/* r = 0 */
	memcpy(buf, sig, sl); memset(buf, 0, w); with_sig_bytes(M_EC_CORNER, 0, h, p, buf, sl);
	/* s = 0 */
	memcpy(buf, sig, sl); memset(buf + w, 0, w); with_sig_bytes(M_EC_CORNER, 1, h, p, buf, sl);
	/* r = n, s = n */
	memcpy(buf, sig, sl); BN_bn2binpad(n, buf, (int)w); with_sig_bytes(M_EC_CORNER, 2, h, p, buf, sl);
	memcpy(buf, sig, sl); BN_bn2binpad(n, buf + w, (int)w); with_sig_bytes(M_EC_CORNER, 3, h, p, buf, sl);
	/* r + n, s + n (if they fit the width) */
	BN_add(t, r, n);
	if ((size_t)BN_num_bytes(t) <= w) { memcpy(buf, sig, sl); BN_bn2binpad(t, buf, (int)w); with_sig_bytes(M_EC_CORNER, 4, h, p, buf, sl); }
	BN_add(t, s, n);
	if ((size_t)BN_num_bytes(t) <= w) { memcpy(buf, sig, sl); BN_bn2binpad(t, buf + w, (int)w); with_sig_bytes(M_EC_CORNER, 5, h, p, buf, sl); }
	/* high-s twin (n - s): mathematically valid, the reference decides */
	BN_sub(t, n, s);
	memcpy(buf, sig, sl); BN_bn2binpad(t, buf + w, (int)w); with_sig_bytes(M_EC_CORNER, 6, h, p, buf, sl);
	/* DER encoding instead of r||s */
	{
		ECDSA_SIG *es = ECDSA_SIG_new();
		unsigned char *der = NULL;
		int dl;
		ECDSA_SIG_set0(es, BN_dup(r), BN_dup(s));
		dl = i2d_ECDSA_SIG(es, &der);
		if (dl > 0) with_sig_bytes(M_EC_CORNER, 7, h, p, der, (size_t)dl);
		OPENSSL_free(der);
		ECDSA_SIG_free(es);
	}
	/* 2w+1 / 2w-1 bytes */
	memcpy(buf, sig, sl); buf[sl] = 0; with_sig_bytes(M_EC_CORNER, 8, h, p, buf, sl + 1);
	with_sig_bytes(M_EC_CORNER, 9, h, p, sig, sl - 1);
	/* r and s padded to a wider fixed width (e.g. 48+48 for a 256-bit key) */
	for (size_t W = 32; W <= 66; W += (W == 32 ? 16 : 18)) {
		if (W <= w) continue;
		memset(buf, 0, 2 * W);
		memcpy(buf + (W - w), sig, w);
		memcpy(buf + W + (W - w), sig + w, w);
		with_sig_bytes(M_EC_CORNER, 10 + (int)W, h, p, buf, 2 * W);
	}
	/* leading-zero stripped (narrower width) when possible */
	if (sig[0] == 0 && sig[w] == 0) {
		memcpy(buf, sig + 1, w - 1); memcpy(buf + w - 1, sig + w + 1, w - 1);
		with_sig_bytes(M_EC_CORNER, 100, h, p, buf, 2 * (w - 1));
	}
	/* r chosen so that u1*G + u2*Q is the point at infinity (r = -e/d mod n): not a valid signature; a verifier's
	 * primitive reports this as an error rather than as "bad signature", and an error is not an acceptance */
	{
		BIGNUM *d = NULL, *e = BN_new(), *di = NULL;
		BN_CTX *cx = BN_CTX_new();
		unsigned char dg[EVP_MAX_MD_SIZE]; unsigned int dgl = 0;
		char *msg = malloc(strlen(h) + strlen(p) + 2);
		sprintf(msg, "%s.%s", h, p);
		if (EVP_PKEY_get_bn_param(k->pkey, OSSL_PKEY_PARAM_PRIV_KEY, &d) && vh_alg_md(alg) &&
		    EVP_Digest(msg, strlen(msg), dg, &dgl, vh_alg_md(alg), NULL) && (int)dgl * 8 <= BN_num_bits(n) + 7) {
			BN_bin2bn(dg, (int)dgl, e);
			if ((int)dgl * 8 > BN_num_bits(n)) BN_rshift(e, e, (int)dgl * 8 - BN_num_bits(n));
			di = BN_mod_inverse(NULL, d, n, cx);
			if (di) {
				BN_mod_mul(t, e, di, n, cx);
				BN_sub(t, n, t);			/* t = -e/d mod n */
				if (!BN_is_zero(t) && (size_t)BN_num_bytes(t) <= w) {
					memset(buf, 0, sl); BN_bn2binpad(t, buf, (int)w); buf[sl - 1] = 1;	/* s = 1 */
					with_sig_bytes(M_EC_CORNER, 200, h, p, buf, sl);
					memcpy(buf + w, sig + w, w);							/* s of the genuine signature */
					with_sig_bytes(M_EC_CORNER, 201, h, p, buf, sl);
					memset(buf + w, 0xff, w); BN_sub(e, n, BN_value_one()); BN_bn2binpad(e, buf + w, (int)w);	/* s = n-1 */
					with_sig_bytes(M_EC_CORNER, 202, h, p, buf, sl);
				}
			}
		}
		free(msg);
		BN_free(d); BN_free(e); BN_free(di); BN_CTX_free(cx);
	}
out:
	EC_GROUP_free(g);
	BN_free(n); BN_free(r); BN_free(s); BN_free(t);
}

/* attacker-computable HMAC keys derived from public information */
static void hs_attack(const char *p, const vh_key_t *k, const jwk_item_t *pubitem)
{
	static const int HS[3] = { JWT_ALG_HS256, JWT_ALG_HS384, JWT_ALG_HS512 };
	const char *pem = pubitem ? jwks_item_pem(pubitem) : NULL;
	unsigned char *der = NULL, raw[600];
	int derlen = k->pkey ? i2d_PUBKEY(k->pkey, &der) : 0;
	size_t rawlen = 0;
	if (k->kind == VH_K_OKP) { rawlen = sizeof(raw); if (!EVP_PKEY_get_raw_public_key(k->pkey, raw, &rawlen)) rawlen = 0; }
	else if (k->kind == VH_K_EC) { if (!EVP_PKEY_get_octet_string_param(k->pkey, OSSL_PKEY_PARAM_PUB_KEY, raw, sizeof(raw), &rawlen)) rawlen = 0; }
	else if (k->pkey) { BIGNUM *n = NULL; if (EVP_PKEY_get_bn_param(k->pkey, OSSL_PKEY_PARAM_RSA_N, &n)) { rawlen = (size_t)BN_bn2bin(n, raw); BN_free(n); } }
	for (int a = 0; a < 3; a++) {
		char hdr[64], *h64, *msg;
		snprintf(hdr, sizeof(hdr), "{\"alg\":\"%s\",\"typ\":\"JWT\"}", vh_alg_name(HS[a]));
		h64 = vh_b64u_enc_dup(hdr, strlen(hdr));
		msg = malloc(strlen(h64) + strlen(p) + 2);
		sprintf(msg, "%s.%s", h64, p);
		for (int v = 0; v < 6; v++) {
			unsigned char mac[64]; size_t ml = 0;
			const void *key = ""; size_t kl = 0;
			switch (v) {
			case 0: break;
			case 1: if (!pem) continue; key = pem; kl = strlen(pem); break;
			case 2: if (!pem || !strlen(pem)) continue; key = pem; kl = strlen(pem) - 1; break;	/* without trailing newline */
			case 3: if (derlen <= 0) continue; key = der; kl = (size_t)derlen; break;
			case 4: if (!rawlen) continue; key = raw; kl = rawlen; break;
			case 5: if (k->kind != VH_K_OCT) continue; key = k->oct; kl = k->octlen > 1 ? k->octlen - 1 : 0; break;	/* truncated true key */
			}
			vh_ref_hmac(HS[a], key, kl, msg, strlen(msg), mac, &ml);
			with_sig_bytes(M_HS_ATTACK, a * 10 + v, h64, p, mac, ml);
		}
		free(h64); free(msg);
	}
	OPENSSL_free(der);
}

static int alg_ok_for(const vh_key_t *k, int alg)
{
	switch (vh_alg_family(alg)) {
	case VH_FAM_HS: return k->kind == VH_K_OCT && k->bits >= EVP_MD_get_size(vh_alg_md(alg)) * 8;
	case VH_FAM_RS: case VH_FAM_PS: return (k->kind == VH_K_RSA || k->kind == VH_K_RSAPSS) && k->bits >= 2048;
	case VH_FAM_ES:
		if (k->kind != VH_K_EC) return 0;
		if (alg == JWT_ALG_ES256) return !strcmp(k->crv, "P-256");
		if (alg == JWT_ALG_ES256K) return !strcmp(k->crv, "secp256k1");
		return k->bits == vh_alg_ecbits(alg);
	case VH_FAM_ED: return k->kind == VH_K_OKP;
	default: return 0;
	}
}

static void run_case(int ki, int alg, int base, int pinroute)
{
	const vh_key_t *k = &KA[ki], *kb = &KB[ki];
	jwk_set_t *set[2] = { NULL, NULL };
	const jwk_item_t *pub = NULL, *priv[2] = { NULL, NULL };
	char *tok = NULL, *h, *p, *s;
	unsigned char sig[1200], tmp[1400];
	long sl;
	int thorough = args.thorough;
	static const char *payload = "{\"iss\":\"c01\",\"n\":12345,\"sub\":\"subject\"}";
	static const char *payload2 = "{\"iss\":\"c01\",\"n\":12346,\"sub\":\"subject\"}";
	char hdr[96];

	cur_key = k;
	/* one checker per provider, each holding the public (or symmetric) key loaded under that provider;
	 * pinned by explicit alg or by the key's alg attribute */
	for (int pv = 0; pv < 2; pv++) {
		const jwk_item_t *it;
		vh_set_prov(pv);
		it = vh_key_load(k, k->kind == VH_K_OCT, pinroute ? vh_alg_name(alg) : NULL, &set[pv]);
		priv[pv] = vh_key_load(k, 1, vh_alg_name(alg), &set[pv]);
		if (!it || !priv[pv] || jwks_item_error(it) || jwks_item_error(priv[pv]))
			vh_harness_fail("key load %s", k->name);
		if (pv == 0) pub = it;
		chk2[pv] = jwt_checker_new();
		if (jwt_checker_setkey(chk2[pv], pinroute ? JWT_ALG_NONE : (jwt_alg_t)alg, it))
			vh_harness_fail("setkey refused %s/%s: %s", k->name, vh_alg_name(alg), jwt_checker_error_msg(chk2[pv]));
		chkp[pv] = NULL;
		if (k->kind != VH_K_OCT) {
			chkp[pv] = jwt_checker_new();
			if (jwt_checker_setkey(chkp[pv], JWT_ALG_NONE, priv[pv])) vh_harness_fail("setkey (private form) refused");
		}
	}

	snprintf(hdr, sizeof(hdr), "{\"alg\":\"%s\",\"typ\":\"JWT\"}", vh_alg_name(alg));
	if (base == 0)
		tok = vh_ref_token(k, alg, hdr, payload);
	else {
		/* signed by libjwt itself under provider base-1; also: are the two providers' tokens byte-identical? */
		char *t2[2] = { NULL, NULL };
		for (int pv = 0; pv < 2; pv++) {
			jwt_builder_t *b = jwt_builder_new();
			jwt_value_t jv;
			vh_set_prov(pv);
			jwt_builder_setkey(b, (jwt_alg_t)alg, priv[pv]);
			jwt_builder_enable_iat(b, 0);
			jwt_set_SET_STR(&jv, "iss", "c01"); jwt_builder_claim_set(b, &jv);
			jwt_set_SET_INT(&jv, "n", 12345); jwt_builder_claim_set(b, &jv);
			t2[pv] = jwt_builder_generate(b);
			jwt_builder_free(b);
		}
		printf("[\"D\",%ld,%d,%d,%d,%d]\n", cur_idx, alg, t2[0] != NULL, t2[1] != NULL, t2[0] && t2[1] && !strcmp(t2[0], t2[1]));
		tok = t2[base - 1];
		free(t2[2 - base]);
		if (!tok) {
			/* provider cannot sign this (ES256K on GnuTLS): nothing to mutate */
			printf("[\"SKIP\",%ld,\"builder cannot sign\"]\n", cur_idx);
			goto done;
		}
	}
	if (!tok) vh_harness_fail("no base token for %s/%s", k->name, vh_alg_name(alg));
	h = strdup(tok); p = strchr(h, '.'); *p++ = 0; s = strchr(p, '.'); *s++ = 0;
	sl = vh_b64u_dec(s, strlen(s), sig);
	if (sl <= 0) vh_harness_fail("base signature does not decode");

	try_token(M_BASE, base, tok);

	subst_field(M_SUBST_H, h, p, s, 0, 0);
	subst_field(M_SUBST_P, h, p, s, 1, 0);
	subst_field(M_SUBST_S, h, p, s, 2, (strlen(s) > 200 && !thorough) ? 64 : (strlen(s) > 200 ? 256 : 0));

	/* single-bit flips of the signature bytes: complete for short signatures, sampled for RSA */
	{
		size_t nbits = (size_t)sl * 8, step = 1;
		if (sl > 140) step = thorough ? 4 : 31;
		for (size_t b = 0; b < nbits; b += step) {
			size_t bit = step > 1 ? b + vh_below(&rng, step) : b;
			if (bit >= nbits) bit = nbits - 1;
			memcpy(tmp, sig, (size_t)sl);
			tmp[bit / 8] ^= (unsigned char)(1u << (bit % 8));
			with_sig_bytes(M_BITFLIP, (int)bit, h, p, tmp, (size_t)sl);
		}
		/* always: every bit of the first and the last byte */
		for (int e = 0; e < 16; e++) {
			memcpy(tmp, sig, (size_t)sl);
			tmp[e < 8 ? 0 : sl - 1] ^= (unsigned char)(1u << (e % 8));
			with_sig_bytes(M_BITFLIP, e < 8 ? e : (int)(sl - 1) * 8 + e % 8, h, p, tmp, (size_t)sl);
		}
	}
	/* truncation / extension */
	for (int c = 1; c <= 4; c++) {
		char *s2 = strdup(s), *t;
		if (strlen(s2) > (size_t)c) { s2[strlen(s2) - (size_t)c] = 0; t = join3(h, p, s2); try_token(M_TRUNC_CH, c, t); free(t); }
		free(s2);
		s2 = malloc(strlen(s) + 8); strcpy(s2, s);
		for (int j = 0; j < c; j++) { size_t l = strlen(s2); s2[l] = B64A[vh_below(&rng, 64)]; s2[l + 1] = 0; }
		t = join3(h, p, s2); try_token(M_EXT_CH, c, t); free(t); free(s2);
	}
	/* long extensions: lengths around powers of two (a length difference kept in a narrow integer wraps there) */
	{
		static const int EXT[] = { 63, 64, 65, 127, 128, 192, 255, 256, 257, 511, 512, 768, 1024, 4096, 65535, 65536, 65537 };
		for (size_t e = 0; e < sizeof(EXT) / sizeof(EXT[0]); e++) {
			size_t n = (size_t)EXT[e], base = strlen(s);
			char *s2 = malloc(base + n + 1), *t;
			unsigned char *b2;
			if (!thorough && n > 1100 && n != 65536) { free(s2); continue; }
			memcpy(s2, s, base);
			for (size_t j = 0; j < n; j++) s2[base + j] = (e & 1) ? 'A' : B64A[vh_below(&rng, 64)];
			s2[base + n] = 0;
			t = join3(h, p, s2); try_token(M_EXT_CH, 1000 + (int)n, t); free(t); free(s2);
			if (n <= 4096) {
				b2 = malloc((size_t)sl + n);
				memcpy(b2, sig, (size_t)sl); vh_rand_bytes(&rng, b2 + sl, n);
				with_sig_bytes(M_EXT_BY, 1000 + (int)n, h, p, b2, (size_t)sl + n);
				free(b2);
			}
		}
	}
	for (int c = 1; c <= 3; c++) {
		if (sl > c) with_sig_bytes(M_TRUNC_BY, c, h, p, sig, (size_t)(sl - c));
		memcpy(tmp, sig, (size_t)sl); memset(tmp + sl, 0, (size_t)c); with_sig_bytes(M_EXT_BY, c, h, p, tmp, (size_t)(sl + c));
		memset(tmp, 0, (size_t)c); memcpy(tmp + c, sig, (size_t)sl); with_sig_bytes(M_EXT_BY, 10 + c, h, p, tmp, (size_t)(sl + c));
		if (sl > c) with_sig_bytes(M_TRUNC_BY, 10 + c, h, p, sig + c, (size_t)(sl - c));	/* drop leading bytes */
	}
	for (int c = 1; c <= 3; c++) {
		char *s2 = malloc(strlen(s) + 8), *t;
		strcpy(s2, s); for (int j = 0; j < c; j++) strcat(s2, "=");
		t = join3(h, p, s2); try_token(M_PAD, c, t); free(t); free(s2);
	}
	{	/* standard-alphabet spelling of the signature */
		char *s2 = strdup(s), *t;
		for (char *q = s2; *q; q++) { if (*q == '-') *q = '+'; else if (*q == '_') *q = '/'; }
		t = join3(h, p, s2); try_token(M_STDALPHA, 0, t); free(t); free(s2);
	}
	/* transplants */
	{
		char *t2 = vh_ref_token(k, alg, hdr, payload2), *s2, *t, *p2;
		if (t2) {
			s2 = strrchr(t2, '.') + 1;
			t = join3(h, p, s2); try_token(M_XPL_PAYLOAD, 0, t); free(t);
			/* payload swapped between two validly signed tokens */
			p2 = strchr(t2, '.') + 1; *strchr(p2, '.') = 0;
			t = join3(h, p2, s); try_token(M_SWAP_PAYLOAD, 0, t); free(t);
			free(t2);
		}
		t2 = vh_ref_token(kb, alg, hdr, payload);	/* other key, same type and size */
		if (t2) { s2 = strrchr(t2, '.') + 1; t = join3(h, p, s2); try_token(M_XPL_KEY, 0, t); free(t); free(t2); }
		if (k->kind == VH_K_OCT) {
			/* related oct keys: a prefix of the key (block sizes of the hashes), the key without / with one more octet, last octet flipped */
			static const int CUT[] = { 16, 32, 48, 64, 128, 0, -1, -2, -3 };
			for (int v = 0; v < 9; v++) {
				vh_key_t rk = *k;
				size_t nl = CUT[v] > 0 ? (size_t)CUT[v] : CUT[v] == 0 ? k->octlen - 1 : k->octlen + (CUT[v] == -1 ? 1 : 0);
				if (CUT[v] > 0 && (size_t)CUT[v] >= k->octlen) continue;
				if (!nl) continue;
				rk.oct = calloc(1, nl + 1);
				memcpy(rk.oct, k->oct, nl < k->octlen ? nl : k->octlen);
				rk.octlen = nl;
				if (CUT[v] == -2) rk.oct[nl - 1] ^= 1;
				if (CUT[v] == -3) rk.oct[nl - 1] ^= 0x80;
				t2 = vh_ref_token(&rk, alg, hdr, payload);
				if (t2) { s2 = strrchr(t2, '.') + 1; t = join3(h, p, s2); try_token(M_XPL_KEY, 1 + v, t); free(t); free(t2); }
				free(rk.oct);
			}
		}
		for (int o = 0; o < nkeys; o++) {		/* other key types */
			if (KA[o].kind == k->kind && !strcmp(KA[o].crv, k->crv)) continue;
			for (int a2 = 1; a2 < VH_NALG; a2++) {
				if (!alg_ok_for(&KA[o], a2)) continue;
				char *h64 = vh_b64u_enc_dup(hdr, strlen(hdr)), *msg = malloc(strlen(h64) + strlen(p) + 2);
				size_t l2; unsigned char *sg;
				sprintf(msg, "%s.%s", h64, p);
				sg = vh_ref_sign(&KA[o], a2, msg, strlen(msg), &l2);
				if (sg) { with_sig_bytes(M_XPL_TYPE, o * 16 + a2, h, p, sg, l2); free(sg); }
				free(h64); free(msg);
				break;
			}
		}
	}
	/* sibling algorithm signature by the right key under this header */
	for (int a2 = 1; a2 < VH_NALG; a2++) {
		char *msg;
		size_t l2; unsigned char *sg;
		if (a2 == alg) continue;
		if (k->kind == VH_K_OCT ? vh_alg_family(a2) != VH_FAM_HS :
		    (k->kind == VH_K_RSA || k->kind == VH_K_RSAPSS) ? (vh_alg_family(a2) != VH_FAM_RS && vh_alg_family(a2) != VH_FAM_PS) :
		    k->kind == VH_K_EC ? vh_alg_family(a2) != VH_FAM_ES : 1) continue;
		msg = malloc(strlen(h) + strlen(p) + 2);
		sprintf(msg, "%s.%s", h, p);
		if (k->kind == VH_K_EC) {
			/* ECDSA by this key but over another hash: sign manually with the other digest */
			vh_key_t kk = *k; size_t w = (size_t)(k->bits + 7) / 8;
			(void)w;
			kk.bits = vh_alg_ecbits(a2);	/* let the reference signer lay out r||s in the sibling's width */
			sg = vh_ref_sign(&kk, a2, msg, strlen(msg), &l2);
		} else
			sg = vh_ref_sign(k, a2, msg, strlen(msg), &l2);
		if (sg) { with_sig_bytes(M_SIBLING, a2, h, p, sg, l2); free(sg); }
		/* and: same signature bytes, header rewritten to the sibling alg (token chooses its alg) */
		{
			char hdr2[96], *h2, *t;
			snprintf(hdr2, sizeof(hdr2), "{\"alg\":\"%s\",\"typ\":\"JWT\"}", vh_alg_name(a2));
			h2 = vh_b64u_enc_dup(hdr2, strlen(hdr2));
			t = vh_ref_token(k, a2, hdr2, payload);	/* correctly signed for a2 by the same key */
			if (t) { try_token(M_HDR_REWRITE, a2, t); free(t); }
			t = join3(h2, p, s); try_token(M_HDR_REWRITE, 100 + a2, t); free(t);
			free(h2);
		}
		free(msg);
	}
	if (k->kind == VH_K_EC)
		ec_corners(h, p, sig, (size_t)sl, k, alg);
	/* constant signatures */
	memset(tmp, 0, (size_t)sl); with_sig_bytes(M_CONST, 0, h, p, tmp, (size_t)sl);
	memset(tmp, 0xff, (size_t)sl); with_sig_bytes(M_CONST, 1, h, p, tmp, (size_t)sl);
	memset(tmp, 0, (size_t)sl); tmp[sl - 1] = 1; with_sig_bytes(M_CONST, 2, h, p, tmp, (size_t)sl);
	{ char *t = join3(h, p, ""); try_token(M_EMPTY, 0, t); free(t); }
	{	/* the same payload under an alg-none header, without and with the genuine signature: a checker that holds a key accepts neither */
		static const char *NH[] = { "{\"alg\":\"none\"}", "{\"alg\":\"none\",\"typ\":\"JWT\"}", "{\"typ\":\"JWT\",\"alg\":\"none\"}" };
		for (int q = 0; q < 3; q++) {
			char *h64 = vh_b64u_enc_dup(NH[q], strlen(NH[q])), *t;
			t = join3(h64, p, ""); try_token(M_EMPTY, 1 + q, t); free(t);
			t = join3(h64, p, s); try_token(M_EMPTY, 11 + q, t); free(t);
			free(h64);
		}
	}
	/* extra segments */
	{
		char *t = malloc(strlen(tok) * 2 + 16);
		sprintf(t, "%s.x", tok); try_token(M_SEGS, 0, t);
		sprintf(t, "x.%s", tok); try_token(M_SEGS, 1, t);
		sprintf(t, "%s.%s", tok, s); try_token(M_SEGS, 2, t);
		sprintf(t, "%s.", tok); try_token(M_SEGS, 3, t);
		sprintf(t, ".%s", tok); try_token(M_SEGS, 4, t);
		sprintf(t, "%s.%s", h, p); try_token(M_SEGS, 5, t);
		sprintf(t, "%s..%s", h, s); try_token(M_SEGS, 6, t);
		sprintf(t, "%s.%s.%s.%s", h, p, p, s); try_token(M_SEGS, 7, t);
		free(t);
	}
	/* whitespace / control bytes at start, middle, end of each field */
	{
		static const char CT[] = { ' ', '\n', '\t', '\r', 0x7f, 0x01, '%', '~' };
		const char *f[3] = { h, p, s };
		for (int fi = 0; fi < 3; fi++) for (int ci = 0; ci < 8; ci++) for (int where = 0; where < 3; where++) {
			size_t n = strlen(f[fi]), pos = where == 0 ? 0 : where == 1 ? n / 2 : n;
			char *m = malloc(n + 2), *t;
			memcpy(m, f[fi], pos); m[pos] = CT[ci]; memcpy(m + pos + 1, f[fi] + pos, n - pos + 1);
			t = fi == 0 ? join3(m, p, s) : fi == 1 ? join3(h, m, s) : join3(h, p, m);
			try_token(M_CTRL, fi * 100 + ci * 3 + where, t);
			free(t); free(m);
		}
	}
	hs_attack(p, k, k->kind == VH_K_OCT ? NULL : pub);
	/* after hundreds of rejected mutants the unmutated token must still verify (no state carried between calls) */
	try_token(M_BASE, 99, tok);
	free(h);
done:
	free(tok);
	for (int pv = 0; pv < 2; pv++) { jwt_checker_free(chk2[pv]); if (chkp[pv]) jwt_checker_free(chkp[pv]); chkp[pv] = NULL; jwks_free(set[pv]); }
}

int main(int argc, char **argv)
{
	long idx = 0;
	char specs[MAXK][24];
	vh_parse_args(argc, argv, &args);
	vh_rng_seed(&rng, args.seed, 9000 + (uint64_t)args.shard);
	if (!args.arg1) vh_harness_fail("need --arg1 keys=...");
	{
		const char *s = strstr(args.arg1, "keys=");
		if (!s) vh_harness_fail("keys= missing");
		s += 5;
		while (*s && nkeys < MAXK) {
			size_t n = strcspn(s, ",;");
			snprintf(specs[nkeys], sizeof(specs[0]), "%.*s", (int)n, s);
			nkeys++;
			s += n; if (*s == ',') s++; else break;
		}
		if (*s == ',' || (nkeys == MAXK && *s && *s != ';')) vh_harness_fail("more than %d keys in the key list", MAXK);
	}
	for (int ki = 0; ki < nkeys; ki++)
		if (vh_key_gen(&KA[ki], specs[ki], &rng) || vh_key_gen(&KB[ki], specs[ki], &rng))
			vh_harness_fail("keygen %s", specs[ki]);
	for (int ki = 0; ki < nkeys; ki++)
	for (int alg = 1; alg < VH_NALG; alg++)
	for (int base = 0; base < 3; base++)
	for (int pr = 0; pr < 2; pr++, idx++) {
		int before[M_NCLASS];
		if (!alg_ok_for(&KA[ki], alg)) continue;
		if (!vh_mine(&args, idx)) continue;
		cur_idx = idx;
		vh_case_begin(idx, "\"key\":\"%s\",\"alg\":\"%s\",\"base\":%d,\"pin\":%d", specs[ki], vh_alg_name(alg), base, pr);
		printf("[\"C\",%ld,\"%s\",\"%s\",%d,%d]\n", idx, specs[ki], vh_alg_name(alg), base, pr);
		memcpy(before, classes_seen, sizeof(before));
		run_case(ki, alg, base, pr);
		printf("[\"CC\",%ld", idx);
		for (int c = 0; c < M_NCLASS; c++) printf(",%d", classes_seen[c] - before[c]);
		printf("]\n");
	}
	printf("[\"STATS\",%lu,%lu", n_events, n_accept);
	for (int c = 0; c < M_NCLASS; c++) printf(",[\"%s\",%d]", MNAME[c], classes_seen[c]);
	printf("]\n");
	for (int ki = 0; ki < nkeys; ki++) { vh_key_free(&KA[ki]); vh_key_free(&KB[ki]); }
	return 0;
}

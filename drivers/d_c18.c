/* C18: separate builders/checkers sharing one keyring, used concurrently.
 * A sequential pre-pass computes the expected result of every (thread, op); then N threads run their op lists
 * concurrently (own builder/checker objects, shared read-only jwk_items, provider fixed), with an allocator installed
 * through jwt_set_alloc that yields/sleeps at random inside library calls.  Results must equal the baseline.
 *   ["R", repeat, nthreads, ops, mismatches, overlapping_same_key_pairs, yields]
 *   ["X", thread, op, kind, key, expect_rc, got_rc, token_equal]     (mismatches)
 * --arg1 provider index, --n ops per thread, --arg2 "threads,repeats"
 */
#include "vh.h"
#include <pthread.h>
#include <sched.h>
#include <unistd.h>

#define NKEY 12
/* the first three keys share one algorithm, two of them longer than the block of every hash (a provider that pre-hashes long keys has
 * per-call state there); they are the hot set of the first repeat */
static const char *KSPEC[NKEY] = { "oct:129", "oct:200", "oct:32", "oct:64", "oct:300", "rsa:2048", "rsa:2048", "ec:P-256", "ec:P-384", "ec:P-521", "okp:Ed25519", "okp:Ed448" };
static const int KALG[NKEY] = { JWT_ALG_HS256, JWT_ALG_HS256, JWT_ALG_HS256, JWT_ALG_HS512, JWT_ALG_HS512, JWT_ALG_RS256, JWT_ALG_PS256, JWT_ALG_ES256, JWT_ALG_ES384, JWT_ALG_ES512, JWT_ALG_EDDSA, JWT_ALG_EDDSA };
static vh_key_t K[NKEY];
static jwk_set_t *ring;			/* the one shared keyring */
static const jwk_item_t *PRIV_B[NKEY], *PUB_B[NKEY];	/* private copy for the sequential baseline */
static const jwk_item_t *PRIV_S[NKEY], *PUB_S[NKEY];	/* the shared keyring: first touched by the concurrent phase */
static const jwk_item_t **PRIV = PRIV_B, **PUB = PUB_B;	/* switched only while no worker thread exists */
static jwk_set_t *basering, *kidring_b;
static char *TOK_OK[NKEY], *TOK_BAD[NKEY], *TOK_EXPIRED[NKEY], *TOK_KID[NKEY], *TOK_UNK[NKEY];
static jwk_set_t *kidring;		/* second shared keyring: public keys with kid "k<i>", looked up from callbacks */

typedef struct { int kind; int key; int variant; } op_t;	/* kind 0 generate, 1 verify, 2 verify with a callback that finds the key by kid in the shared keyring */
typedef struct { int rc; char *tok; struct timespec t0, t1; } result_t;
typedef struct {
	int id, nops;
	op_t *ops;
	result_t *base, *got;
	uint64_t seed;
	unsigned long yields;
} thr_t;

static __thread vh_rng_t trng;
static __thread int trng_init;
static __thread unsigned long tyields;
static int chaos;	/* injected delays on/off */

static void *chaos_malloc(size_t n)
{
	if (chaos) {
		if (!trng_init) { vh_rng_seed(&trng, (uint64_t)(uintptr_t)&trng, 99); trng_init = 1; }
		uint64_t r = vh_rand(&trng);
		if ((r & 31) == 0) { sched_yield(); tyields++; }
		else if ((r & 255) == 1) { usleep((useconds_t)(1 + ((r >> 8) & 63))); tyields++; }
	}
	return malloc(n);
}
static void chaos_free(void *p) { free(p); }

static int is_deterministic(int alg)
{
	vh_fam_t f = vh_alg_family(alg);
	return f == VH_FAM_HS || f == VH_FAM_RS || f == VH_FAM_ED;
}

static int kid_cb(jwt_t *jwt, jwt_config_t *cfg)
{
	jwt_value_t v;
	const jwk_item_t *it;
	jwt_set_GET_STR(&v, "kid");
	if (jwt_header_get(jwt, &v) != JWT_VALUE_ERR_NONE) return 1;
	it = jwks_find_bykid(kidring, v.str_val);
	if (!it) return 1;
	/* also walk the shared keyring the way an application would */
	if (jwks_item_count(kidring) != NKEY || jwks_item_get(kidring, 0) == NULL || jwks_error_any(kidring)) return 1;
	cfg->key = it;
	cfg->alg = jwt_get_alg(jwt);
	return 0;
}

static void run_op(const op_t *op, result_t *res, int thread_id, int opno)
{
	clock_gettime(CLOCK_MONOTONIC, &res->t0);
	if (op->kind == 0) {
		jwt_builder_t *b = jwt_builder_new();
		jwt_value_t v;
		res->tok = NULL;
		if (b) {
			jwt_builder_setkey(b, (jwt_alg_t)KALG[op->key], PRIV[op->key]);
			jwt_builder_enable_iat(b, 0);
			jwt_set_SET_INT(&v, "thread", thread_id); jwt_builder_claim_set(b, &v);
			jwt_set_SET_INT(&v, "op", opno); jwt_builder_claim_set(b, &v);
			jwt_set_SET_STR(&v, "iss", "c18"); jwt_builder_claim_set(b, &v);
			if (op->variant & 1) { jwt_set_SET_JSON(&v, "nested", "{\"a\":[1,2,3],\"b\":{\"c\":null}}"); jwt_builder_claim_set(b, &v); }
			if (op->variant & 2) jwt_builder_time_offset(b, JWT_CLAIM_EXP, 60);
			res->tok = jwt_builder_generate(b);
			res->rc = res->tok ? 0 : 1;
			jwt_builder_free(b);
		} else res->rc = 1;
	} else if (op->kind == 2) {
		jwt_checker_t *c = jwt_checker_new();
		res->tok = NULL;
		if (c) {
			jwt_checker_setcb(c, kid_cb, NULL);
			res->rc = jwt_checker_verify(c, op->variant % 3 == 1 ? TOK_BAD[op->key] : op->variant % 3 == 2 ? TOK_UNK[op->key] : TOK_KID[op->key]) ? 1 : 0;
			jwt_checker_free(c);
		} else res->rc = 1;
	} else {
		jwt_checker_t *c = jwt_checker_new();
		const char *tok = op->variant % 3 == 0 ? TOK_OK[op->key] : op->variant % 3 == 1 ? TOK_BAD[op->key] : TOK_EXPIRED[op->key];
		res->tok = NULL;
		if (c) {
			jwt_checker_setkey(c, (jwt_alg_t)KALG[op->key], PUB[op->key]);
			jwt_checker_claim_set(c, JWT_CLAIM_ISS, "c18");
			res->rc = jwt_checker_verify(c, tok) ? 1 : 0;
			jwt_checker_free(c);
		} else res->rc = 1;
	}
	clock_gettime(CLOCK_MONOTONIC, &res->t1);
}

static pthread_barrier_t barrier;
static void *worker(void *arg)
{
	thr_t *t = arg;
	vh_rng_t r;
	vh_rng_seed(&r, t->seed, 777);
	pthread_barrier_wait(&barrier);
	/* randomised start skew */
	usleep((useconds_t)vh_below(&r, 300));
	for (int i = 0; i < t->nops; i++)
		run_op(&t->ops[i], &t->got[i], t->id, i);
	t->yields = tyields;
	return NULL;
}

static double ts(const struct timespec *t) { return (double)t->tv_sec + (double)t->tv_nsec * 1e-9; }

int main(int argc, char **argv)
{
	vh_args_t a;
	vh_rng_t rng;
	int prov, nthr = 8, repeats = 3, nops, cold;
	vh_parse_args(argc, argv, &a);
	/* cold: the worker threads make the process's very first sign/verify calls (first-use initialisation inside the library is
	 * raced); the sequential reference pass runs afterwards */
	cold = a.mode && !strcmp(a.mode, "cold");
	prov = a.arg1 ? atoi(a.arg1) : 0;
	if (a.arg2) sscanf(a.arg2, "%d,%d", &nthr, &repeats);
	nops = a.n > 0 ? (int)a.n : 200;
	vh_rng_seed(&rng, a.seed, 18);
	jwt_set_alloc(chaos_malloc, chaos_free);
	vh_set_prov(prov);
	vh_now = 1700000000;
	for (int k = 0; k < NKEY; k++) {
		char hdr[64];
		if (vh_key_gen(&K[k], KSPEC[k], &rng)) vh_harness_fail("keygen");
		PRIV_B[k] = vh_key_load(&K[k], 1, NULL, &basering);
		PUB_B[k] = vh_key_load(&K[k], K[k].kind == VH_K_OCT, NULL, &basering);
		snprintf(hdr, sizeof(hdr), "{\"alg\":\"%s\",\"typ\":\"JWT\"}", vh_alg_name(KALG[k]));
		TOK_OK[k] = vh_ref_token(&K[k], KALG[k], hdr, "{\"iss\":\"c18\",\"exp\":1700009999}");
		TOK_BAD[k] = vh_ref_token(&K[k], KALG[k], hdr, "{\"iss\":\"c18\",\"exp\":1700009999,\"x\":1}");
		{ size_t l = strlen(TOK_BAD[k]); TOK_BAD[k][l - 4] = TOK_BAD[k][l - 4] == 'A' ? 'B' : 'A'; }
		TOK_EXPIRED[k] = vh_ref_token(&K[k], KALG[k], hdr, "{\"iss\":\"c18\",\"exp\":1600000000}");
		{
			char kid[16], *jwk, hk[96];
			snprintf(kid, sizeof(kid), "k%d", k);
			jwk = vh_key_jwk(&K[k], K[k].kind == VH_K_OCT, NULL, kid, NULL);
			kidring_b = jwks_load(kidring_b, jwk);
			free(jwk);
			snprintf(hk, sizeof(hk), "{\"alg\":\"%s\",\"kid\":\"%s\"}", vh_alg_name(KALG[k]), kid);
			TOK_KID[k] = vh_ref_token(&K[k], KALG[k], hk, "{\"iss\":\"c18\"}");
			/* and a token that names a key nobody has: the look-up misses, the callback refuses (a refusal must not leave anything in
			 * the shared keyring either) */
			snprintf(hk, sizeof(hk), "{\"alg\":\"%s\",\"kid\":\"nobody-%d\"}", vh_alg_name(KALG[k]), k);
			TOK_UNK[k] = vh_ref_token(&K[k], KALG[k], hk, "{\"iss\":\"c18\"}");
		}
	}
	for (int rep = 0; rep < repeats; rep++) {
		thr_t *T = calloc((size_t)nthr, sizeof(*T));
		pthread_t *tid = calloc((size_t)nthr, sizeof(*tid));
		unsigned long mism = 0, overlaps = 0, yields = 0, total = 0;
		vh_case_begin(rep, "\"repeat\":%d,\"threads\":%d,\"ops\":%d,\"prov\":%d", rep, nthr, nops, prov);
		for (int t = 0; t < nthr; t++) {
			T[t].id = t; T[t].nops = nops; T[t].seed = a.seed * 1000 + (uint64_t)rep * 100 + (uint64_t)t;
			T[t].ops = calloc((size_t)nops, sizeof(op_t));
			T[t].base = calloc((size_t)nops, sizeof(result_t));
			T[t].got = calloc((size_t)nops, sizeof(result_t));
			for (int i = 0; i < nops; i++) {
				/* few keys per repeat so that threads collide on the same items */
				int k = (int)vh_below(&rng, NKEY);
				if (vh_below(&rng, 3)) k = (rep * 2 + (int)vh_below(&rng, 3)) % NKEY;
				if (cold) k = (t + i) % NKEY;	/* every algorithm among the first calls */
				T[t].ops[i] = (op_t){ (int)vh_below(&rng, 3), k, (int)vh_below(&rng, 6) };
			}
		}
		/* a fresh shared keyring per repeat: its items are first used by the worker threads, concurrently */
		ring = NULL; kidring = NULL;
		for (int k = 0; k < NKEY; k++) {
			char kid[16], *jwk;
			PRIV_S[k] = vh_key_load(&K[k], 1, NULL, &ring);
			PUB_S[k] = vh_key_load(&K[k], K[k].kind == VH_K_OCT, NULL, &ring);
			snprintf(kid, sizeof(kid), "k%d", k);
			jwk = vh_key_jwk(&K[k], K[k].kind == VH_K_OCT, NULL, kid, NULL);
			kidring = jwks_load(kidring, jwk);
			free(jwk);
		}
		/* sequential baseline (no injected delays) on the private copies */
		if (!cold) { jwk_set_t *shared_kid = kidring; kidring = kidring_b; PRIV = PRIV_B; PUB = PUB_B;
		chaos = 0;
		for (int t = 0; t < nthr; t++) for (int i = 0; i < nops; i++) run_op(&T[t].ops[i], &T[t].base[i], t, i);
		kidring = shared_kid; PRIV = PRIV_S; PUB = PUB_S; }
		else { PRIV = PRIV_S; PUB = PUB_S; }
		/* concurrent run */
		chaos = 1;
		pthread_barrier_init(&barrier, NULL, (unsigned)nthr);
		for (int t = 0; t < nthr; t++) if (pthread_create(&tid[t], NULL, worker, &T[t])) vh_harness_fail("pthread_create");
		for (int t = 0; t < nthr; t++) pthread_join(tid[t], NULL);
		pthread_barrier_destroy(&barrier);
		chaos = 0;
		PRIV = PRIV_B; PUB = PUB_B;
		jwks_free(ring); jwks_free(kidring); ring = NULL; kidring = kidring_b;
		if (cold)
			for (int t = 0; t < nthr; t++) for (int i = 0; i < nops; i++) run_op(&T[t].ops[i], &T[t].base[i], t, i);
		for (int t = 0; t < nthr; t++) {
			yields += T[t].yields;
			for (int i = 0; i < nops; i++) {
				const op_t *op = &T[t].ops[i];
				result_t *b = &T[t].base[i], *g = &T[t].got[i];
				int tokeq = 1;
				total++;
				if (op->kind == 0 && b->tok && g->tok) {
					if (is_deterministic(KALG[op->key])) tokeq = !strcmp(b->tok, g->tok);
					else {
						const char *db = strrchr(b->tok, '.'), *dg = strrchr(g->tok, '.');
						tokeq = (db - b->tok) == (dg - g->tok) && !strncmp(b->tok, g->tok, (size_t)(db - b->tok)) &&
							vh_ref_token_valid(&K[op->key], g->tok, NULL);
					}
				}
				if (b->rc != g->rc || !tokeq) {
					mism++;
					printf("[\"X\",%d,%d,%d,\"%s\",%d,%d,%d]\n", t, i, op->kind, KSPEC[op->key], b->rc, g->rc, tokeq);
				}
			}
		}
		/* how much real concurrency on the same key did we get? count overlapping intervals from different threads */
		for (int t = 0; t < nthr; t++) for (int u = t + 1; u < nthr; u++) {
			int j = 0;
			for (int i = 0; i < nops; i++) {
				double s0 = ts(&T[t].got[i].t0), e0 = ts(&T[t].got[i].t1);
				while (j < nops && ts(&T[u].got[j].t1) < s0) j++;
				for (int q = j; q < nops && ts(&T[u].got[q].t0) <= e0; q++)
					if (T[u].ops[q].key == T[t].ops[i].key) overlaps++;
			}
		}
		printf("[\"R\",%d,%d,%lu,%lu,%lu,%lu]\n", rep, nthr, total, mism, overlaps, yields);
		for (int t = 0; t < nthr; t++) {
			for (int i = 0; i < nops; i++) { free(T[t].base[i].tok); free(T[t].got[i].tok); }
			free(T[t].ops); free(T[t].base); free(T[t].got);
		}
		free(T); free(tid);
	}
	jwks_free(basering); jwks_free(kidring_b);
	for (int k = 0; k < NKEY; k++) { free(TOK_OK[k]); free(TOK_BAD[k]); free(TOK_EXPIRED[k]); free(TOK_KID[k]); free(TOK_UNK[k]); vh_key_free(&K[k]); }
	printf("[\"END\"]\n");
	return 0;
}

/* Fake clock: the statically linked libjwt calls this time().  With vh_tick != 0 the clock advances on every reading
 * (one operation must take one reading: values derived from several readings disagree). */
#include <time.h>
time_t vh_now = 1700000000;
time_t vh_tick = 0;
unsigned long vh_clock_reads = 0;
time_t time(time_t *t)
{
	time_t v = vh_now;
	vh_now += vh_tick;
	vh_clock_reads++;
	if (t)
		*t = v;
	return v;
}

/* C05: every generated token verifies (on every provider pair) and delivers the same header and claims.
 *  ["R", idx, key, alg, sprov, vprov, route, now, given_hdr_hex, given_claims_hex, token_null, gen_msg, verify_rc, verify_msg,
 *        ref_valid, cb_hdr_hex, cb_claims_hex, ec_short, token_len]
 */
#include "vh.h"
#include <inttypes.h>

static vh_rng_t rng;
#define MAXK 48
static vh_key_t K[MAXK];
static int nk;
static jwk_set_t *sets[2];
static const jwk_item_t *PRIV[2][MAXK], *PUB[2][MAXK];

/* ---- growable text buffer ------------------------------------------------ */
typedef struct { char *p; size_t n, cap; } tb_t;
static void tb_add(tb_t *t, const char *s, size_t n)
{
	if (t->n + n + 1 > t->cap) { t->cap = (t->n + n + 1) * 2; t->p = realloc(t->p, t->cap); }
	memcpy(t->p + t->n, s, n); t->n += n; t->p[t->n] = 0;
}
static void tb_adds(tb_t *t, const char *s) { tb_add(t, s, strlen(s)); }

/* ---- random JSON ------------------------------------------------------------ */
static const char *UNI[] = { "\xc3\xa9", "\xe2\x82\xac", "\xf0\x9f\x98\x80", "\xe4\xb8\xad", "\xc2\xa0", "\xef\xbf\xbd", "\xd7\x90" };
static void gen_raw_string(tb_t *t, size_t maxlen)
{
	/* raw UTF-8 that needs no JSON escaping */
	size_t n = vh_below(&rng, 6) == 0 ? vh_below(&rng, maxlen + 1) : vh_below(&rng, 12);
	for (size_t i = 0; i < n; i++) {
		if (vh_below(&rng, 10) == 0) tb_adds(t, UNI[vh_below(&rng, 7)]);
		else {
			char c;
			do { c = (char)(32 + vh_below(&rng, 95)); } while (c == '"' || c == '\\');
			tb_add(t, &c, 1);
		}
	}
}
static void gen_json_string(tb_t *t)
{
	static const char *ESC[] = { "\\n", "\\t", "\\\"", "\\\\", "\\/", "\\u00e9", "\\ud83d\\ude00", "\\u0001", "\\b", "\\u20ac", "\\r", "\\f" };
	tb_adds(t, "\"");
	size_t n = vh_below(&rng, 8);
	/* rarely an escaped U+0000 (legal JSON; the builder may refuse the document, but what it accepts must make the round trip) */
	if (vh_below(&rng, 60) == 0) tb_adds(t, vh_below(&rng, 2) ? "\\u0000" : "a\\u0000b");
	for (size_t i = 0; i < n; i++) {
		if (vh_below(&rng, 3) == 0) tb_adds(t, ESC[vh_below(&rng, 12)]);
		else gen_raw_string(t, 4);
	}
	tb_adds(t, "\"");
}
static void gen_int(tb_t *t, long *out)
{
	static const long V[] = { 0, 1, -1, INT64_MAX, INT64_MIN, 2147483647L, 2147483648L, -2147483649L, 4294967296L, 9007199254740993L };
	long v = vh_below(&rng, 3) ? V[vh_below(&rng, 10)] : (long)vh_rand(&rng);
	char b[32];
	if (vh_below(&rng, 4) == 0) v = (long)vh_below(&rng, 100000);
	snprintf(b, sizeof(b), "%ld", v);
	tb_adds(t, b);
	if (out) *out = v;
}
static void gen_value(tb_t *t, int depth);
static void gen_name(tb_t *t, int i)
{
	char b[24];
	snprintf(b, sizeof(b), "k%d_", i);
	tb_adds(t, b);
	if (vh_below(&rng, 4) == 0) gen_raw_string(t, 6);
}
static void gen_object(tb_t *t, int depth)
{
	int n = vh_below(&rng, 40) == 0 ? 100 + (int)vh_below(&rng, 300) : (int)vh_below(&rng, 5);
	tb_adds(t, "{");
	for (int i = 0; i < n; i++) {
		if (i) tb_adds(t, ",");
		tb_adds(t, "\"");
		if (i == 0 && vh_below(&rng, 8) == 0) { /* empty member name (valid JSON) */ }
		else gen_name(t, i);
		tb_adds(t, "\":");
		gen_value(t, depth + 1);
	}
	tb_adds(t, "}");
}
static void gen_array(tb_t *t, int depth)
{
	int n = (int)vh_below(&rng, 5);
	tb_adds(t, "[");
	for (int i = 0; i < n; i++) { if (i) tb_adds(t, ","); gen_value(t, depth + 1); }
	tb_adds(t, "]");
}
static void gen_value(tb_t *t, int depth)
{
	static const char *REALS[] = { "1.5", "-0.25", "10000000000.0", "3.141592653589793", "1e-07", "0.0", "-1.0", "1.7976931348623157e+308", "5e-324", "123456.789" };
	int k = (int)vh_below(&rng, depth >= 6 ? 6 : 8);
	switch (k) {
	case 0: gen_int(t, NULL); break;
	case 1: tb_adds(t, REALS[vh_below(&rng, 10)]); break;
	case 2: gen_json_string(t); break;
	case 3: tb_adds(t, vh_below(&rng, 2) ? "true" : "false"); break;
	case 4: tb_adds(t, "null"); break;
	case 5: tb_adds(t, vh_below(&rng, 2) ? "{}" : "[]"); break;
	case 6: gen_object(t, depth); break;
	default: gen_array(t, depth); break;
	}
}

/* a top-level member list; members are applied one by one (route 1) or as one merged text (route 0) */
typedef struct { char *name; int kind; long ival; char *sval; char *text; } member_t;	/* kind: 1 int 2 str 3 bool 4 json(obj/array) 5 other-json-scalar (real/null: only via merge) */
#define MAXM 400
static member_t M[2][MAXM];
static int nm[2];

static void gen_members(int which, int route, int is_header)
{
	int n = vh_below(&rng, 30) == 0 ? 100 + (int)vh_below(&rng, 250) : (int)vh_below(&rng, 7);
	nm[which] = 0;
	for (int i = 0; i < n && i < MAXM; i++) {
		member_t *m = &M[which][nm[which]++];
		tb_t nmb = { 0 }, v = { 0 };
		gen_name(&nmb, i);
		int reg_aud = 0;
		if (i == 0 && vh_below(&rng, 6) == 0) { nmb.n = 0; tb_adds(&nmb, is_header ? (vh_below(&rng, 2) ? "typ" : "alg") : (vh_below(&rng, 2) ? "iat" : "sub")); }
		/* registered claim / header names with the structured values RFC 7519 allows (aud as a list, also of one element) */
		if (i == 3 && vh_below(&rng, 3) == 0) { static const char *RN[] = { "aud", "iss", "jti", "kid", "crit", "cty", "jku", "x5c" }; nmb.n = 0; tb_adds(&nmb, RN[is_header ? 3 + vh_below(&rng, 5) : vh_below(&rng, 3)]); reg_aud = 1; }
		if (i == 1 && vh_below(&rng, 5) == 0) { nmb.n = 0; nmb.p[0] = 0; }	/* the empty name: only settable through a merge */
		if (i == 2 && vh_below(&rng, 12) == 0) { for (int q = 0; q < 40; q++) tb_adds(&nmb, "long-name-"); }
		m->name = nmb.p;
		m->sval = NULL;
		m->kind = 1 + (int)vh_below(&rng, route == 0 ? 5 : 4);
		if (reg_aud && vh_below(&rng, 2)) m->kind = 4;
		if (!m->name[0] && m->kind < 4) m->kind = 5;	/* typed setters refuse an empty name */
		switch (m->kind) {
		case 1: gen_int(&v, &m->ival); break;
		case 2: { tb_t raw = { 0 }; tb_adds(&raw, ""); gen_raw_string(&raw, vh_below(&rng, 60) == 0 ? 65536 : 40); m->sval = raw.p; tb_adds(&v, "\""); tb_adds(&v, raw.p); tb_adds(&v, "\""); break; }
		case 3: m->ival = (long)vh_below(&rng, 2); tb_adds(&v, m->ival ? "true" : "false"); break;
		case 4: if (reg_aud && vh_below(&rng, 2)) { static const char *AV[] = { "[\"api\"]", "[\"a\",\"b\"]", "[]", "[1]", "[\"\"]", "[[\"api\"]]", "{\"0\":\"api\"}", "[null]" }; tb_adds(&v, AV[vh_below(&rng, 8)]); }
			else if (vh_below(&rng, 2)) gen_object(&v, 1); else gen_array(&v, 1);
			break;
		default: { static const char *S[] = { "1.5", "null", "-2.5e-3", "0.0" }; tb_adds(&v, S[vh_below(&rng, 4)]); }
		}
		m->text = v.p;
	}
}
static char *members_text(int which)
{
	tb_t t = { 0 };
	tb_adds(&t, "{");
	for (int i = 0; i < nm[which]; i++) {
		if (i) tb_adds(&t, ",");
		tb_adds(&t, "\""); tb_adds(&t, M[which][i].name); tb_adds(&t, "\":"); tb_adds(&t, M[which][i].text);
	}
	tb_adds(&t, "}");
	return t.p;
}
static void free_members(void)
{
	for (int w = 0; w < 2; w++) for (int i = 0; i < nm[w]; i++) { free(M[w][i].name); free(M[w][i].sval); free(M[w][i].text); }
}

/* ---- checker callback: dump what it is handed ---------------------------------- */
static char *cb_h, *cb_c;
static int dump_cb(jwt_t *jwt, jwt_config_t *cfg)
{
	jwt_value_t v;
	(void)cfg;
	jwt_set_GET_JSON(&v, NULL); if (jwt_header_get(jwt, &v) == JWT_VALUE_ERR_NONE) cb_h = v.json_val;
	jwt_set_GET_JSON(&v, NULL); if (jwt_claim_get(jwt, &v) == JWT_VALUE_ERR_NONE) cb_c = v.json_val;
	return 0;
}

static int alg_ok_for(const vh_key_t *k, int alg)
{
	switch (vh_alg_family(alg)) {
	case VH_FAM_HS: return k->kind == VH_K_OCT && k->bits >= EVP_MD_get_size(vh_alg_md(alg)) * 8;
	case VH_FAM_RS: case VH_FAM_PS: return k->kind == VH_K_RSA && k->bits >= 2048;
	case VH_FAM_ES:
		if (k->kind != VH_K_EC) return 0;
		if (alg == JWT_ALG_ES256) return !strcmp(k->crv, "P-256");
		if (alg == JWT_ALG_ES256K) return !strcmp(k->crv, "secp256k1");
		return k->bits == vh_alg_ecbits(alg);
	case VH_FAM_ED: return k->kind == VH_K_OKP;
	default: return 0;
	}
}

typedef struct { int k, alg; } combo_t;
static combo_t CB[128];
static int ncb;

int main(int argc, char **argv)
{
	vh_args_t a;
	vh_parse_args(argc, argv, &a);
	vh_rng_seed(&rng, a.seed, 50 + (uint64_t)a.shard);
	{
		const char *s = a.arg1 ? a.arg1 : "oct:32,oct:64,rsa:2048,ec:P-256,okp:Ed25519";
		while (*s && nk < MAXK) {
			char spec[32];
			size_t n = strcspn(s, ",");
			snprintf(spec, sizeof(spec), "%.*s", (int)n, s);
			if (vh_key_gen(&K[nk], spec, &rng)) vh_harness_fail("keygen %s", spec);
			nk++;
			s += n; if (*s == ',') s++;
		}
		if (*s) vh_harness_fail("more than %d keys in the key list", MAXK);
	}
	for (int p = 0; p < 2; p++) {
		vh_set_prov(p);
		for (int k = 0; k < nk; k++) {
			PRIV[p][k] = vh_key_load(&K[k], 1, NULL, &sets[p]);
			PUB[p][k] = vh_key_load(&K[k], K[k].kind == VH_K_OCT, NULL, &sets[p]);
		}
	}
	for (int k = 0; k < nk; k++) for (int alg = 1; alg < VH_NALG; alg++) if (alg_ok_for(&K[k], alg) && ncb < 128) CB[ncb++] = (combo_t){ k, alg };

	for (long idx = 0; idx < a.n; idx++) {
		combo_t cb;
		int sprov, vprov, route, refvalid = -1, vrc = -1, ec_short = -1;
		int64_t now;
		jwt_builder_t *b;
		jwt_checker_t *c;
		jwt_value_t v;
		char *gh, *gc, *tok, gmsg[80] = "", vmsg[80] = "";
		int bad_set = 0;
		long off_nbf = 0, off_exp = 0;
		if (!vh_mine(&a, idx)) continue;
		vh_rng_seed(&rng, a.seed, 7000000 + (uint64_t)idx);
		/* ECDSA combos get extra weight: short r/s values are the rare event we are after */
		cb = CB[(idx / 4) % ncb];
		/* keys above 4096 bits cost a second per signature: an eighth of their share */
		{ long q = idx / 4; while (K[CB[q % ncb].k].bits > 4096 && K[CB[q % ncb].k].kind != VH_K_OCT && ((idx >> 6) & 7)) q++; cb = CB[q % ncb]; }
		if (vh_below(&rng, 3) == 0) { int tries = 0; do { cb = CB[vh_below(&rng, (uint64_t)ncb)]; } while (vh_alg_family(cb.alg) != VH_FAM_ES && ++tries < 50); }
		sprov = (int)(idx & 1); vprov = (int)((idx >> 1) & 1);
		route = (int)vh_below(&rng, 3);	/* 0 whole-object merge, 1 per-member typed setters, 2 mixed: merge then per-member extras */
		now = vh_below(&rng, 4) ? 1700000000LL + (int64_t)vh_below(&rng, 1000000) : (int64_t)vh_below(&rng, 1ULL << 40);
		vh_case_begin(idx, "\"key\":\"%s\",\"alg\":\"%s\",\"sprov\":%d,\"vprov\":%d,\"route\":%d", K[cb.k].name, vh_alg_name(cb.alg), sprov, vprov, route);
		/* tiny payloads for most ECDSA cases keep them fast */
		gen_members(0, route == 1 ? 1 : 0, 1);
		gen_members(1, route == 1 ? 1 : 0, 0);
		if (vh_alg_family(cb.alg) == VH_FAM_ES && vh_below(&rng, 4)) { free_members(); nm[0] = nm[1] = 0; gen_members(1, 1, 0); if (nm[1] > 3) { for (int i = 3; i < nm[1]; i++) { free(M[1][i].name); free(M[1][i].sval); free(M[1][i].text); } nm[1] = 3; } }
		gh = members_text(0); gc = members_text(1);

		vh_set_prov(sprov);
		vh_now = (time_t)now;
		b = jwt_builder_new();
		if (jwt_builder_setkey(b, (jwt_alg_t)cb.alg, PRIV[sprov][cb.k])) vh_harness_fail("builder setkey %s", jwt_builder_error_msg(b));
		for (int w = 0; w < 2; w++) {
			if (route == 0 || route == 2) {
				/* whole-object merge; for route 2 only the first half, the rest member by member */
				char *txt = w == 0 ? gh : gc;
				if (route == 0) {
					jwt_set_SET_JSON(&v, NULL, txt);
					if ((w == 0 ? jwt_builder_header_set(b, &v) : jwt_builder_claim_set(b, &v)) != JWT_VALUE_ERR_NONE) bad_set++;
					continue;
				}
			}
			for (int i = 0; i < nm[w]; i++) {
				member_t *m = &M[w][i];
				jwt_value_error_t e;
				switch (m->kind) {
				case 1: jwt_set_SET_INT(&v, m->name, m->ival); break;
				case 2: jwt_set_SET_STR(&v, m->name, m->sval); break;
				case 3: jwt_set_SET_BOOL(&v, m->name, (int)m->ival); break;
				case 4: if (m->name[0]) { jwt_set_SET_JSON(&v, m->name, m->text); break; }
					/* fall through: an object/array under the empty name goes in by merge */
				default: {	/* scalars without a typed setter: merge a one-member object */
					tb_t one = { 0 };
					tb_adds(&one, "{\""); tb_adds(&one, m->name); tb_adds(&one, "\":"); tb_adds(&one, m->text); tb_adds(&one, "}");
					jwt_set_SET_JSON(&v, NULL, one.p);
					e = w == 0 ? jwt_builder_header_set(b, &v) : jwt_builder_claim_set(b, &v);
					if (e != JWT_VALUE_ERR_NONE) bad_set++;
					free(one.p);
					continue;
				}
				}
				e = w == 0 ? jwt_builder_header_set(b, &v) : jwt_builder_claim_set(b, &v);
				if (e != JWT_VALUE_ERR_NONE) bad_set++;
			}
		}
		/* a third of the round trips use the builder's time offsets: nbf only, exp only, or both (the token is then verified at
		 * the moment it becomes valid) */
		off_nbf = off_exp = 0;
		if (vh_below(&rng, 3) == 0 && now < ((int64_t)1 << 40)) {
			static const long NO[] = { 1, 60, 3600 }, EO[] = { 3601, 86400, 31536000 };
			int which = 1 + (int)vh_below(&rng, 3);
			if (which & 1) { off_nbf = NO[vh_below(&rng, 3)]; jwt_builder_time_offset(b, JWT_CLAIM_NBF, (time_t)off_nbf); }
			if (which & 2) { off_exp = EO[vh_below(&rng, 3)]; jwt_builder_time_offset(b, JWT_CLAIM_EXP, (time_t)off_exp); }
		}
		tok = jwt_builder_generate(b);
		if (!tok) snprintf(gmsg, sizeof(gmsg), "%.70s", jwt_builder_error_msg(b));
		cb_h = cb_c = NULL;
		vh_now = (time_t)(now + off_nbf);
		if (tok) {
			refvalid = vh_ref_token_valid(&K[cb.k], tok, NULL);
			if (vh_alg_family(cb.alg) == VH_FAM_ES) {
				unsigned char sg[200];
				const char *s3 = strrchr(tok, '.') + 1;
				long sl = vh_b64u_dec(s3, strlen(s3), sg);
				ec_short = sl > 0 && (sg[0] == 0 || sg[sl / 2] == 0);
			}
			vh_set_prov(vprov);
			c = jwt_checker_new();
			if (jwt_checker_setkey(c, (jwt_alg_t)cb.alg, PUB[vprov][cb.k])) vh_harness_fail("checker setkey");
			jwt_checker_setcb(c, dump_cb, NULL);
			if ((idx & 3) == 1) {
				/* a quarter of the round trips: the checker has just refused something else (a spoiled copy of the token, or text that
				 * is no token) and the application did not clear the error: the generated token verifies all the same */
				char *sp = strdup(tok);
				size_t sl_ = strlen(sp);
				if (idx & 4) sp[sl_ / 2] = sp[sl_ / 2] == 'A' ? 'B' : 'A'; else { free(sp); sp = strdup("not.a.token"); }
				(void)jwt_checker_verify(c, sp);
				free(sp); free(cb_h); free(cb_c); cb_h = cb_c = NULL;
			}
			vrc = jwt_checker_verify(c, tok);
			if (vrc) snprintf(vmsg, sizeof(vmsg), "%.70s", jwt_checker_error_msg(c));
			jwt_checker_free(c);
		}
		printf("[\"R\",%ld,\"%s\",\"%s\",%d,%d,%d,%" PRId64 ",", idx, K[cb.k].name, vh_alg_name(cb.alg), sprov, vprov, route, now);
		vh_put_hex(stdout, gh, strlen(gh)); printf(","); vh_put_hex(stdout, gc, strlen(gc));
		printf(",%d,", tok == NULL); vh_put_jstr(stdout, gmsg); printf(",%d,", vrc); vh_put_jstr(stdout, vmsg);
		printf(",%d,", refvalid);
		vh_put_hex(stdout, cb_h ? cb_h : "", cb_h ? strlen(cb_h) : 0); printf(",");
		vh_put_hex(stdout, cb_c ? cb_c : "", cb_c ? strlen(cb_c) : 0);
		printf(",%d,%zu,%d,%ld,%ld]\n", ec_short, tok ? strlen(tok) : 0, bad_set, off_nbf, off_exp);
		free(cb_h); free(cb_c); free(tok); free(gh); free(gc);
		free_members();
		jwt_builder_free(b);
	}
	for (int p = 0; p < 2; p++) jwks_free(sets[p]);
	for (int k = 0; k < nk; k++) vh_key_free(&K[k]);
	return 0;
}

"""C03 — unsigned tokens pass only when neither key nor algorithm is configured."""
import vf
from monitors import policy_model as pm
from checks.c02 import merge


def spec(tier):
    keys = "none,oct:64,rsa:2048,ec:P-256,okp:Ed25519,oct:0,okp:X25519"   # the last two do not import: items in error state, still offered to setkey and to callbacks
    if tier == "thorough":
        keys = "none,oct:32,oct:64,oct:128,rsa:2048,rsa:3072,rsapss:2048,ec:P-256,ec:P-384,ec:P-521,ec:secp256k1,okp:Ed25519,okp:Ed448,oct:0,okp:X25519"
    # configured alg: none, one per family, INVAL; key alg attribute: absent, "none", matching family members, unknown
    return ("prov=0,1;route=0..9,11;cfg=0,1,2,4,7,8,10,13,14,15;keys=%s;kalg=-1,0,1,4,7,8,9,10,13,14,15;pub=0,1;"
            "hdr=0..63;sig=0,1,2,6,7,8,9;op=v,g" % keys)


def run(tier, seed, replay):
    rep = vf.Report("C03", tier, seed)
    rep.rule = ("complete enumeration of checker/builder configuration (route x explicit alg x key x key alg attribute x "
                "public/private) x token shape (64 header-alg variants x {empty, garbage, valid signature, two segments, "
                "'h.p..x', trailing dot, padding-only}); distinct = distinct (route, has key, explicit alg?, key alg?, "
                "token shape class, signature empty?, outcome) tuples")
    rep.assumptions = ["a callback that withdraws a key set by setkey is not generated (statement silent)",
                       "tokens are built and decoded by the harness' own codec"]
    rd = vf.run_dir("C03")
    b = vf.driver("d_policy", "asan")
    args = ["--arg1", spec(tier), "--seed", seed, "--tier", tier]
    if replay and (replay.get("witness") or {}).get("idx") is not None:
        args += ["--only", replay["witness"]["idx"]]
    outs, crashes = vf.run_shards(b, args, vf.NCPU, rd, timeout=3000)
    rep.crash_violations(crashes)
    keys, hdrs = pm.load_meta(outs)
    merge(rep, vf.pmap(pm.judge, [(p, "C03", keys, hdrs) for p in outs]), "C03")
    c = rep.counters
    if not replay:
        vf.need(rep, c.get("keyless_none_accepted", 0) > 0, "no alg-none token accepted by a key-less checker (positive control)")
        vf.need(rep, c.get("keyless_none_accepted", 0) == c.get("keyless_none_tokens", -1),
                "key-less checker rejected a well-formed alg-none token (%s of %s accepted)" % (c.get("keyless_none_accepted"), c.get("keyless_none_tokens")))
        vf.need(rep, c.get("keyed_builder_tokens", 0) > 0, "no signed token produced by a keyed builder (positive control)")
        vf.need(rep, c.get("keyless_builder_tokens", 0) > 0, "no alg-none token produced by a key-less builder (positive control)")
        vf.need(rep, c.get("keyed_checker_unsigned_tokens", 0) > 1000, "too few unsigned tokens shown to keyed checkers")
        vf.need(rep, c.get("accepted", 0) > c.get("keyless_none_accepted", 0), "no signed token accepted by a keyed checker (positive control)")
    rep.exhaustive = True
    rep.extra["matrix"] = spec(tier)
    return rep

"""C04 — claim checks (exp, nbf, iss, sub, aud) are enforced exactly as configured."""
import json
import vf

ISS, SUB, AUD, EXP, NBF = 1, 2, 4, 8, 16
NAME = {ISS: "iss", SUB: "sub", AUD: "aud"}
I64 = 1 << 63


class Model:
    """Reference model of the statement (not of the code)."""

    def __init__(self):
        self.exp_on, self.nbf_on = True, True
        self.exp_lw, self.nbf_lw = 0, 0
        self.expected = {}          # type -> expected string (check on iff present)

    def leeway(self, claim, secs):
        if claim == EXP:
            if secs < 0:
                self.exp_on = False
            else:
                self.exp_on, self.exp_lw = True, secs
            return 0
        if claim == NBF:
            if secs < 0:
                self.nbf_on = False
            else:
                self.nbf_on, self.nbf_lw = True, secs
            return 0
        return 1

    def set(self, typ, val):
        if typ not in NAME or val is None:
            return 1
        try:
            val.encode("latin-1").decode("utf-8")
        except UnicodeDecodeError:
            # not valid UTF-8: refused.  What is in force afterwards is not spelled out; the earlier expectation must not turn into
            # "anything goes": a token whose claim differs from the value configured before must still be rejected
            self.tainted = getattr(self, "tainted", {})
            self.tainted[typ] = self.expected.pop(typ, self.tainted.get(typ))
            return 1
        except UnicodeEncodeError:
            pass
        self.expected[typ] = val
        getattr(self, "tainted", {}).pop(typ, None)
        return 0

    def delete(self, typ):
        if typ not in NAME:
            return 1
        self.expected.pop(typ, None)
        getattr(self, "tainted", {}).pop(typ, None)
        return 0

    def verdict(self, now, payload):
        """returns (accept: bool | None(ambiguous), reason)"""
        if not isinstance(payload, dict):
            return None, "payload-not-object"
        for on, name, lw in ((self.exp_on, "exp", self.exp_lw), (self.nbf_on, "nbf", self.nbf_lw)):
            if on and name in payload:
                v = payload[name]
                if type(v) is not int:
                    return False, name + "-not-integer"
                if not (-I64 <= v < I64):
                    return None, name + "-beyond-int64"
                if name == "exp" and not (v > now - lw):
                    return False, "expired"
                if name == "nbf" and not (v <= now + lw):
                    return False, "not-yet-valid"
        for typ, prev in getattr(self, "tainted", {}).items():
            n = NAME[typ]
            if prev is None:
                return None, n + "-after-refused-set-without-earlier-value"
            if type(payload.get(n)) is str and payload[n].encode("utf-8", "surrogatepass") == prev.encode("utf-8", "surrogatepass"):
                return None, n + "-after-refused-set-equals-earlier-value"
            return False, n + "-differs-from-value-configured-before-a-refused-set"
        for typ, exp in self.expected.items():
            n = NAME[typ]
            if n not in payload:
                return False, n + "-missing"
            v = payload[n]
            if type(v) is not str:
                return False, n + "-not-string"
            if v.encode("utf-8", "surrogatepass") != exp.encode("utf-8", "surrogatepass"):
                return False, n + "-mismatch"
        return True, "ok"


def has_bigint(v):
    if type(v) is int:
        return not (-I64 <= v < I64)
    if isinstance(v, dict):
        return any(has_bigint(x) for x in v.values())
    if isinstance(v, list):
        return any(has_bigint(x) for x in v)
    return False


def relation(model, now, payload):
    """coarse descriptor for distinct counting"""
    d = []
    for name, lw, on in (("exp", model.exp_lw, model.exp_on), ("nbf", model.nbf_lw, model.nbf_on)):
        if name not in payload:
            d.append(name + ":absent")
            continue
        v = payload[name]
        if type(v) is not int:
            d.append("%s:%s" % (name, type(v).__name__))
            continue
        b = now - lw if name == "exp" else now + lw
        diff = v - b
        d.append("%s:%s:%s" % (name, "on" if on else "off", diff if -2 <= diff <= 2 else ("lt" if diff < 0 else "gt")))
    for typ in (ISS, SUB, AUD):
        n = NAME[typ]
        e = model.expected.get(typ)
        a = payload.get(n, None)
        d.append("%s:%s:%s" % (n, "set" if e is not None else "unset",
                               "absent" if n not in payload else type(a).__name__ if type(a) is not str else
                               "eq" if a == e else "prefix" if e and (e.startswith(a) or a.startswith(e)) else
                               "case" if e and a.lower() == e.lower() else "ne"))
    return tuple(d)


def judge(path):
    out = dict(n=0, distinct=set(), viol=[], samples=[], c={})
    c = out["c"]
    models = {}
    sig = {}
    hist_ops = {}

    def cnt(k):
        c[k] = c.get(k, 0) + 1

    def viol(key, what, hist, ev):
        cnt("viol")
        if len(out["viol"]) < 100:
            out["viol"].append((key, what, dict(history=hist, ops=hist_ops.get(hist, [])[-14:], failing_op=ev)))

    with open(path, errors="replace") as fh:
        for line in fh:
            if not line.startswith("["):
                continue
            try:
                ev = json.loads(line)
            except Exception:
                continue
            tag, hist = ev[0], ev[1]
            hist_ops.setdefault(hist, []).append(ev)
            if tag == "N":
                models[hist] = Model()
                sig[hist] = ev[2]
                if len(hist_ops) > 4:
                    for h in list(hist_ops)[:-4]:
                        if h != hist:
                            hist_ops.pop(h, None)
                continue
            m = models[hist]
            out["n"] += 1
            if tag == "L":
                exp = m.leeway(ev[2], ev[3])
                cnt("leeway_calls")
                if (ev[4] != 0) != (exp != 0):
                    viol("time_leeway-return", "jwt_checker_time_leeway returned %d, model %d" % (ev[4], exp), hist, ev)
            elif tag == "S":
                exp = m.set(ev[2], ev[3])
                cnt("claim_set_calls")
                if (ev[4] != 0) != (exp != 0):
                    viol("claim_set-return", "jwt_checker_claim_set returned %d, model %d" % (ev[4], exp), hist, ev)
            elif tag == "D":
                exp = m.delete(ev[2])
                cnt("claim_del_calls")
                if (ev[3] != 0) != (exp != 0):
                    viol("claim_del-return", "jwt_checker_claim_del returned %d, model %d" % (ev[3], exp), hist, ev)
            elif tag == "G":
                cnt("claim_get_calls")
                exp = m.expected.get(ev[2])
                if ev[2] in getattr(m, "tainted", {}):
                    cnt("unjudged.claim_get-after-refused-set")
                elif ev[3] != exp:
                    viol("claim_get-value", "jwt_checker_claim_get returned %r, model %r" % (ev[3], exp), hist, ev)
            elif tag == "V":
                now, text, rc, ef = ev[2], ev[3], ev[4], ev[5]
                cnt("verify")
                try:
                    payload = json.loads(text)
                except Exception:
                    payload = None
                if "\\u0000" in text:
                    # jansson (without JSON_ALLOW_NUL) refuses the document; the statement only requires rejection
                    cnt("escaped_nul_payloads")
                    if rc == 0:
                        exp, why = m.verdict(now, payload)
                        if exp is False:
                            viol("accept:%s:%s" % (why, "signed" if sig[hist] else "unsigned"), "token accepted although the model rejects", hist, ev)
                    continue
                exp, why = m.verdict(now, payload)
                if exp is not None and has_bigint(payload):
                    exp, why = None, "integer-beyond-int64-in-payload"   # jansson refuses the whole document
                if exp is None:
                    cnt("unjudged." + why)
                    continue
                out["distinct"].add((relation(m, now, payload), exp))
                cnt("model_accept" if exp else "model_reject")
                if (rc == 0) != exp:
                    key = ("accept:" if rc == 0 else "reject:") + why + (":signed" if sig[hist] else ":unsigned")
                    viol(key, "verify returned %d but the claim model says %s (%s)" % (rc, "accept" if exp else "reject", why), hist, ev)
                if len(out["samples"]) < 3 and not exp:
                    out["samples"].append(dict(now=now, payload=text, policy=dict(exp_on=m.exp_on, exp_leeway=m.exp_lw, nbf_on=m.nbf_on,
                                               nbf_leeway=m.nbf_lw, expected={NAME[k]: v for k, v in m.expected.items()}),
                                               model=why, rc=rc))
    return out


def run(tier, seed, replay):
    rep = vf.Report("C04", tier, seed)
    rep.rule = ("histories of time_leeway/claim_set/claim_del/claim_get interleaved with verifies at harness-controlled clock values: "
                "complete cross product of 9 clock values (incl. -1 and -2) x 8 leeways x {boundary-2..+2, negatives, 0, INT64 extremes} x 12 non-integer "
                "types for exp and nbf, all 13x23 expected/actual string pairs per claim, expected/actual pairs that share a prefix and differ in length by 1..131072 characters (multiples of 256 and 65536 and their neighbours, both directions), then random histories; signed (HS256) and "
                "unsigned. distinct = distinct (relation of exp/nbf to its boundary incl. on/off, type, string-claim relation, model verdict) tuples")
    rep.assumptions = ["clock = time() supplied by the harness (drivers/vh_clock.c)", "integers beyond int64 and payloads with an escaped NUL are "
                       "unjudged (jansson refuses them; only 'not accepted against the model' is asserted)",
                       "a claim_set refused for an expected value that is not valid UTF-8 leaves the policy unspecified except that a token differing from the value configured before it is still rejected"]
    rd = vf.run_dir("C04")
    b = vf.driver("d_c04", "asan", clock=True)
    n = 1000000 if tier == "thorough" else 20000
    args = ["--n", n, "--seed", seed, "--tier", tier]
    if replay and (replay.get("witness") or {}).get("history") is not None:
        args += ["--only", replay["witness"]["history"]]
    outs, crashes = vf.run_shards(b, args, vf.NCPU, rd, timeout=3000)
    rep.crash_violations(crashes)
    for r in vf.pmap(judge, [(p,) for p in outs]):
        rep.evaluations += r["n"]
        rep.distinct |= r["distinct"]
        for k, what, wit in r["viol"]:
            rep.violation(k, what, wit)
        for s in r["samples"]:
            rep.sample(s)
        for k, v in r["c"].items():
            rep.count(k, v)
    c = rep.counters
    if not replay:
        vf.need(rep, c.get("model_accept", 0) > 1000, "too few accepted verifies (positive control)")
        vf.need(rep, c.get("model_reject", 0) > 1000, "too few rejected verifies")
    return rep

"""C01 — no token is accepted without a valid signature by the configured key."""
import json
import vf

CLASSES = ["base", "subst-header", "subst-payload", "subst-sig", "sig-bitflip", "trunc-chars", "trunc-bytes", "extend-chars",
           "extend-bytes", "padding", "std-alphabet", "sig-from-other-payload", "sig-from-other-key", "sig-from-other-keytype",
           "sibling-alg-sig", "ecdsa-corner", "constant-sig", "empty-sig", "extra-segments", "control-bytes", "payload-swap",
           "hs-attacker-key", "header-rewrite"]


def keys_for(tier):
    if tier == "thorough":
        return "oct:32,oct:48,oct:64,oct:65,oct:100,oct:128,oct:129,oct:200,rsa:2048,rsa:2050,rsa:3072,rsa:4096,rsapss:2048,ec:P-256,ec:P-384,ec:P-521,ec:secp256k1,okp:Ed25519,okp:Ed448"
    return "oct:64,oct:100,oct:129,oct:200,rsa:2048,rsa:2050,ec:P-256,ec:P-384,ec:P-521,ec:secp256k1,okp:Ed25519,okp:Ed448"


BASES = ["harness-signed", "libjwt-signed(openssl)", "libjwt-signed(gnutls)"]
PROVS = ["openssl", "gnutls"]


def viol_key(prov, case, cls, variant):
    kind = case[0].split(":")[0]
    crv = case[0].split(":")[1] if kind in ("ec", "okp") else ""
    key = "accept-invalid:%s:%s%s:%s:%s" % (prov, kind, ("/" + crv) if crv else "", case[1], CLASSES[cls])
    if cls == 4:      # bit flips: the byte position matters for recognising a specific known leniency
        key += ":byte%d" % (variant // 8)
    elif cls == 3:    # character substitution at position `variant`: last signature byte it touches
        key += ":byte%d" % ((variant * 6 + 5) // 8)
    return key


def judge(path, prop="C01"):
    out = dict(n=0, acc=0, distinct=set(), viol=[], samples=[], c={}, cases={})
    c = out["c"]

    def cnt(k, n=1):
        c[k] = c.get(k, 0) + n

    with open(path, errors="replace") as fh:
        for line in fh:
            if not line.startswith("["):
                continue
            try:
                ev = json.loads(line)
            except Exception:
                continue
            if ev[0] == "C":
                out["cases"][ev[1]] = ev[2:]
            elif ev[0] == "CC":
                case = out["cases"].get(ev[1])
                for ci, n in enumerate(ev[2:]):
                    if n > 0 and case:
                        out["distinct"].add((case[0], case[1], CLASSES[ci]))
                        cnt("class." + CLASSES[ci], n)
            elif ev[0] == "STATS":
                out["n"] += ev[1] * 2          # every token is verified under both providers
                cnt("verdict_pairs", ev[1])     # pairs not logged individually are reject/reject on an invalid token
                out["acc"] += ev[2]
            elif ev[0] == "SKIP":
                cnt("skipped_cases")
            elif ev[0] == "D":
                idx, alg, ok0, ok1, same = ev[1:6]
                case = out["cases"].get(idx, ["?", "?", 0, 0])
                if prop == "C12" and ok0 and ok1:
                    det = case[1].startswith(("HS", "RS")) or case[1] == "EdDSA"
                    cnt("token_pairs_compared")
                    if det:
                        cnt("deterministic_pairs")
                        if not same:
                            out["viol"].append(("tokens-differ:%s" % case[1], "OpenSSL and GnuTLS produced different tokens for a deterministic algorithm",
                                                dict(idx=idx, key=case[0], alg=case[1])))
            elif ev[0] == "MP":
                idx, cls, variant, refvalid, rp0, rp1, ra0, ra1 = ev[1:9]
                case = out["cases"].get(idx, ["?", "?", 0, 0])
                tok = ev[9] if len(ev) > 9 else None
                unsupported = "secp256k1" in case[0]
                cnt("private_key_checker_events")
                for pi, rp, ra in ((0, rp0, ra0), (1, rp1, ra1)):
                    prov = PROVS[pi]
                    wit = dict(idx=idx, key=case[0], alg=case[1], mutation=CLASSES[cls], variant=variant, provider=prov, rc_private_key_checker=rp,
                               rc_public_key_checker_afterwards=ra, ref_valid=refvalid, token=tok)
                    if rp == 0 and not refvalid and prop == "C01":
                        # same key as for the public-key checker: the key form is not part of what fails (see the witness)
                        out["viol"].append((viol_key(prov, case, cls, variant),
                                            "a checker holding the private form of the key accepted a token whose third segment is not a valid signature", wit))
                    if cls == 0 and refvalid and (rp != 0 or ra != 0) and not (pi == 1 and unsupported):
                        cnt("base_rejected")
                        if prop == "C12":
                            out["viol"].append(("rejects-valid:%s:%s:%s" % (prov, case[1], "private-key-checker" if rp != 0 else "public-key-checker-after-private-key-verify"),
                                                "a valid token was rejected by the %s" % ("checker holding the private JWK" if rp != 0 else "public-key checker right after a verification with the private JWK"), wit))
            elif ev[0] == "M":
                idx, cls, variant, refvalid, rc0, rc1 = ev[1:7]
                case = out["cases"].get(idx, ["?", "?", 0, 0])
                tok = ev[7] if len(ev) > 7 else None
                wit = dict(idx=idx, key=case[0], alg=case[1], base=BASES[case[2]], pin=["explicit alg", "key alg attribute"][case[3]],
                           mutation=CLASSES[cls], variant=variant, rc_openssl=rc0, rc_gnutls=rc1, ref_valid=refvalid, token=tok)
                unsupported = "secp256k1" in case[0]          # GnuTLS has no secp256k1 / ES256K
                for pi, rc in ((0, rc0), (1, rc1)):
                    prov = PROVS[pi]
                    if rc == 0:
                        cnt("accepted.%s.%s" % (prov, case[1]))
                        if cls != 0 and refvalid:
                            cnt("accepted_mutants_refvalid")
                        if not refvalid and prop == "C01":
                            out["viol"].append((viol_key(prov, case, cls, variant),
                                                "verify returned 0 for a token whose third segment is not a valid signature", wit))
                    elif refvalid and cls == 0:
                        if pi == 1 and unsupported:
                            cnt("unjudged_secp256k1_gnutls_base_rejected")
                        else:
                            cnt("base_rejected")        # unmutated token rejected: voids the positive control (C05's business otherwise)
                            if prop == "C12":
                                out["viol"].append(("rejects-valid:%s:%s:%s" % (prov, case[1], BASES[case[2]]),
                                                    "a provider rejected a token signed as RFC 7518 prescribes (by %s)" % BASES[case[2]], wit))
                if prop == "C12" and not unsupported:
                    if rc0 != rc1:
                        if refvalid and cls != 0:
                            cnt("unjudged_disagreement_on_lenient_valid." + CLASSES[cls])   # valid but not RFC-canonical: excluded middle
                        else:
                            acc = PROVS[0] if rc0 == 0 else PROVS[1]
                            k = viol_key(acc, case, cls, variant).replace("accept-invalid:", "disagree:only-%s-accepts:" % acc, 1) if not refvalid else \
                                "disagree:valid-token:%s:%s" % (case[1], BASES[case[2]])
                            out["viol"].append((k, "OpenSSL and GnuTLS give different verdicts on the same token", wit))
                    else:
                        cnt("agreements_judged")
                if len(out["samples"]) < 2 and cls not in (0,):
                    out["samples"].append(dict(key=case[0], alg=case[1], mutation=CLASSES[cls], variant=variant, ref_valid=refvalid,
                                               rc_openssl=rc0, rc_gnutls=rc1))
    del out["cases"]
    return out


def run(tier, seed, replay):
    rep = vf.Report("C01", tier, seed)
    rep.rule = ("for every key x admissible alg x base token (harness-signed, signed by libjwt under OpenSSL, under GnuTLS) x pin route, every mutation "
                "class is applied (all positions for short fields, sampled for RSA signatures; every single bit of EdDSA/ECDSA/HMAC "
                "signatures) and every mutant is verified under both providers; key-rotation histories; verify and generate with the k-th allocation request of the crypto library itself failing (OpenSSL CRYPTO_set_mem_functions, gnutls_malloc pointers), every k; distinct = distinct (key, alg, mutation class) tuples executed; a case is "
                "non-trivial because every mutant still reaches jwt_checker_verify with a configured key")
    rep.assumptions = ["reference validity = OpenSSL EVP_DigestVerify / HMAC called directly on the harness' own key object; lenient "
                       "base64 decoding and PSS salt auto-detection make the check one-directional (accepted => valid)",
                       "forgeries that require breaking the primitive are out of reach"]
    rd = vf.run_dir("C01")
    b = vf.driver("d_c01", "asan")
    args = ["--arg1", "keys=" + keys_for(tier), "--seed", seed, "--tier", tier]
    if replay and (replay.get("witness") or {}).get("idx") is not None:
        args += ["--only", replay["witness"]["idx"]]
    outs, crashes = vf.run_shards(b, args, vf.NCPU, rd, timeout=3000)
    rep.crash_violations(crashes)
    for r in vf.pmap(judge, [(p, "C01") for p in outs]):
        rep.evaluations += r["n"]
        rep.distinct |= r["distinct"]
        rep.count("accepted_total", r["acc"])
        for k, what, wit in r["viol"]:
            rep.violation(k, what, wit)
        for s in r["samples"]:
            rep.sample(s)
        for k, v in r["c"].items():
            rep.count(k, v)
    # key-rotation histories on the plain build (real allocator address reuse) and on the ASan build
    if not replay:
        for flav in ("plain", "asan"):
            rb = vf.driver("d_rotate", flav)
            routs, rcr = vf.run_shards(rb, ["--n", 12 if tier == "thorough" else 5, "--seed", seed], min(vf.NCPU, 14), rd, tag="rot-" + flav, timeout=1800)
            rep.crash_violations(rcr, prefix="rotate-%s:" % flav)
            for ev in vf.read_jsonl([]):
                pass
            for pth in routs:
                with open(pth, errors="replace") as fh:
                    for line in fh:
                        if not line.startswith('["ROT"'):
                            continue
                        _, prov, key, rnd, step, expect, rc = json.loads(line)
                        rep.evaluations += 1
                        rep.count("rotation_verifies")
                        rep.distinct.add(("rotate", flav, prov, key, step))
                        if expect and rc != 0:
                            rep.count("rotation_valid_rejected")
                            rep.violation("rotation:rejects-current-key:%s:%s:%s" % (PROVS[prov], key, step.split(":")[0]),
                                          "after key rotation a token signed by the key the checker holds now is rejected",
                                          dict(build=flav, provider=PROVS[prov], key=key, round=rnd, step=step, rc=rc))
                        if not expect and rc == 0:
                            rep.violation("accept-invalid:rotation:%s:%s:%s" % (PROVS[prov], key, step.split(":")[0]),
                                          "a token signed by a key the checker does not hold (any more) was accepted",
                                          dict(build=flav, provider=PROVS[prov], key=key, round=rnd, step=step, rc=rc))
    # provider-internal allocation failure: OpenSSL's and GnuTLS's own allocators fail the k-th request during verify / generate
    if not replay:
        fb = vf.driver("d_c01f", "asan")
        # verdicts only here; leaks and memory errors of the same executions are C06's business and are reported there
        fouts, fcr = vf.run_shards(fb, ["--seed", seed, "--tier", tier], vf.NCPU, rd, tag="pf", timeout=3000,
                                   env={"ASAN_OPTIONS": vf.SAN_ENV["ASAN_OPTIONS"].replace("detect_leaks=1", "detect_leaks=0")})
        rep.crash_violations(fcr, prefix="provider-fault:")
        for pth in fouts:
            with open(pth, errors="replace") as fh:
                for line in fh:
                    if not line.startswith("["):
                        continue
                    try:
                        ev = json.loads(line)
                    except Exception:
                        continue
                    if ev[0] == "N":
                        _, idx, prov, key, alg, tk, nall, rc0, inj, acc, rej = ev
                        rep.evaluations += inj
                        rep.count("provider_faults_injected.verify", inj)
                        rep.count("provider_fault.valid_token_still_accepted" if tk == 0 else "provider_fault.invalid_token_rejected", acc if tk == 0 else rej)
                        if nall:
                            rep.distinct.add(("provider-fault", PROVS[prov], alg, tk))
                    elif ev[0] == "M":
                        _, idx, prov, key, alg, nall, inj, toks, nulls = ev
                        rep.evaluations += inj
                        rep.count("provider_faults_injected.sign", inj)
                        rep.count("provider_fault.sign_returned_valid_token", toks)
                        rep.count("provider_fault.sign_returned_null", nulls)
                        if nall:
                            rep.distinct.add(("provider-fault-sign", PROVS[prov], alg))
                    elif ev[0] == "F":
                        _, idx, prov, key, alg, tk, nall, mode, k, rc = ev
                        TK = ["valid", "sig-bitflip", "sig-zero", "other-payload", "other-key"]
                        if mode == 0 or mode == 9:
                            rep.violation("provider-fault:fault-free-verdict-wrong:%s:%s:%s" % (PROVS[prov], alg, TK[tk]),
                                          "without any fault (%s the fault series) the %s token is %s" % ("after" if mode == 9 else "before", TK[tk], "accepted" if rc == 0 else "rejected"),
                                          dict(idx=idx, provider=PROVS[prov], key=key, alg=alg, token=TK[tk], rc=rc))
                        else:
                            rep.violation("provider-fault:accept-invalid:%s:%s:%s" % (PROVS[prov], alg, TK[tk]),
                                          "with the provider's allocation #%d failing (%s) verify returned 0 for a token that is not validly signed" % (k, "only that one" if mode == 1 else "and all later ones"),
                                          dict(idx=idx, provider=PROVS[prov], key=key, alg=alg, token=TK[tk], allocations_in_verify=nall, mode=mode, k=k))
                    elif ev[0] == "G":
                        _, idx, prov, key, alg, nall, mode, k, got, ok = ev[:10]
                        rep.violation("provider-fault:bad-token:%s:%s" % (PROVS[prov], alg),
                                      "with the provider's allocation #%d failing generate returned a token that is not validly signed (or differs for a deterministic algorithm)" % k,
                                      dict(idx=idx, provider=PROVS[prov], key=key, alg=alg, allocations_in_generate=nall, mode=mode, k=k, ref_valid=ok, token=(ev[10] if len(ev) > 10 else None)))
    c = rep.counters
    if not replay:
        vf.need(rep, c.get("provider_faults_injected.verify", 0) > 3000 and c.get("provider_faults_injected.sign", 0) > 1000, "provider fault injection did not run")
        vf.need(rep, c.get("rotation_verifies", 0) > 500, "key-rotation histories did not run")
        vf.need(rep, c.get("base_rejected", 0) == 0, "%d unmutated base tokens were rejected (positive control broken)" % c.get("base_rejected", 0))
        for prov in ("openssl", "gnutls"):
            for alg in ("HS256", "RS256", "PS256", "ES256", "ES384", "ES512", "EdDSA"):
                vf.need(rep, c.get("accepted.%s.%s" % (prov, alg), 0) > 0, "no accepted %s token on %s (positive control)" % (alg, prov))
        for cl in CLASSES:
            vf.need(rep, c.get("class." + cl, 0) > 0, "mutation class %s never executed" % cl)
    return rep

"""Conservative classifier: is this byte string *definitely* not a well-formed token (C06, second clause)?

Returns (verdict, reason) with verdict in {"malformed", "ok", "ambiguous"}.  "malformed" is only returned when no
generous reading could make the first segment a JSON object with a known string alg and the second a JSON document.
"""
import json, re

ALGS = {"none", "HS256", "HS384", "HS512", "RS256", "RS384", "RS512", "ES256", "ES384", "ES512", "PS256", "PS384", "PS512",
        "ES256K", "EdDSA"}
ALPHA = set(b"ABCDEFGHIJKLMNOPQRSTUVWXYZabcdefghijklmnopqrstuvwxyz0123456789-_+/")
VAL = {}
for i, ch in enumerate(b"ABCDEFGHIJKLMNOPQRSTUVWXYZabcdefghijklmnopqrstuvwxyz0123456789"):
    VAL[ch] = i
VAL[ord("-")] = VAL[ord("+")] = 62
VAL[ord("_")] = VAL[ord("/")] = 63


def lenient_decode(seg):
    """bytes before the first '='; None if a foreign byte occurs there or the whole length is 1 mod 4."""
    if len(seg) % 4 == 1:
        return None
    body = seg.split(b"=", 1)[0]
    if any(c not in ALPHA for c in body):
        return None
    acc = bits = 0
    out = bytearray()
    for c in body:
        acc = (acc << 6) | VAL[c]
        bits += 6
        if bits >= 8:
            bits -= 8
            out.append((acc >> bits) & 0xff)
    return bytes(out)


def superset_json(b):
    """Parse with a reader more permissive than jansson: latin-1 text, control chars allowed, NaN allowed.
    Returns (ok, value, ambiguous)."""
    ambiguous = False
    if b"\x00" in b:
        b = b.split(b"\x00", 1)[0]     # libjwt hands the decoded bytes to jansson as a C string
        ambiguous = True
    try:
        v = json.loads(b.decode("latin-1"), strict=False)
        return True, v, ambiguous
    except RecursionError:
        return True, None, True
    except Exception:
        return False, None, ambiguous


def classify(tok):
    if tok.count(b".") < 2:
        return "malformed", "fewer-than-two-dots"
    h, rest = tok.split(b".", 1)
    p, s = rest.split(b".", 1)
    hb = lenient_decode(h)
    if hb is None:
        return "malformed", "header-not-base64"
    ok, hv, amb = superset_json(hb)
    if not ok:
        return "malformed", "header-not-json"
    if hv is None and amb:
        return "ambiguous", "header-too-deep"
    if not isinstance(hv, dict):
        return "malformed", "header-not-object"
    alg = hv.get("alg")
    if not isinstance(alg, str) or alg not in ALGS:
        # duplicate members: Python keeps the last, as jansson does
        return "malformed", "alg-missing-or-unknown"
    pb = lenient_decode(p)
    if pb is None:
        return "malformed", "payload-not-base64"
    ok, pv, amb2 = superset_json(pb)
    if not ok:
        return "malformed", "payload-not-json"
    if amb or amb2:
        return "ambiguous", "nul-prefix"
    return "ok", "well-formed"

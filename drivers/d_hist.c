/* C13 / C14: reused objects vs fresh identically configured twins, over a pool of inputs with one
 * member per failure layer.
 *   ["V", hist, step, cfg, tok, cleared, rc_r, ef_r, msg_r, rc_f, ef_f, msg_f]
 *   ["G", hist, step, cfg, action, cleared, null_r, ef_r, msg_r, null_f, ef_f, msg_f, same_hp, same_token, ref_r, ref_f, deterministic]
 * modes: pairs (all ordered pairs x cleared x cfg), rand (--n random histories up to length 20)
 */
#include "vh.h"
#include <sys/wait.h>
#include <unistd.h>

#define NOW 1700000000L
static vh_rng_t rng;
static vh_key_t K1, K2, KW, KEC, KED, KRSA;
static jwk_set_t *kset;
static const jwk_item_t *I1, *I1A, *I2, *IW, *IECpriv, *IECpub, *IED, *IRSA, *IRSApub;

#define NTOK 45
static char *TOK[NTOK];
static const char *TOKNAME[NTOK] = { "NULL", "empty", "no-dots", "one-dot", "header-not-base64", "header-not-json", "unknown-alg", "missing-alg",
	"non-string-alg", "payload-not-json", "expired", "not-yet-valid", "wrong-iss", "alg-none-unsigned", "wrong-alg-HS384", "bad-signature",
	"signature-not-base64", "valid-A", "valid-B", "exp-not-integer", "kid-fail(callback error)", "kid-bad(callback picks inadmissible key)",
	"kid-k2(valid under K2)", "kid-weak(callback picks too-small key)", "huge-valid", "valid-none-token", "wrong-aud",
	"payload-json-array", "payload-json-array-signed-valid", "header-json-array", "payload-empty-object-unsigned",
	"rs256-valid", "rs256-bad-signature",
	"aud-is-list-with-x", "aud-is-list-without-x", "iss-is-number", "sub-is-null", "aud-is-null", "iss-is-list", "iss-sub-aud-right", "sub-wrong", "aud-is-object",
	"kid-ecpub(valid, callback picks the public EC JWK)", "kid-ecpriv(valid, callback picks the private EC JWK)",
	"valid-until-the-next-second(verified on a ticking clock)" };

static char *mk(const vh_key_t *k, int alg, const char *hdr, const char *pl) { return vh_ref_token(k, alg, hdr, pl); }

static void build_pool(void)
{
	const char *H = "{\"alg\":\"HS256\",\"typ\":\"JWT\"}";
	char big[24000];
	TOK[0] = NULL;
	TOK[1] = strdup("");
	TOK[2] = strdup("nodotsatall");
	TOK[3] = strdup("eyJhbGciOiJIUzI1NiJ9.e30");
	TOK[4] = strdup("!!!!.e30.AAAA");
	TOK[5] = mk(&K1, JWT_ALG_HS256, "{\"alg\":\"HS256\"", "{}");
	TOK[6] = mk(&K1, JWT_ALG_HS256, "{\"alg\":\"XS1\"}", "{\"iss\":\"me\"}");
	TOK[7] = mk(&K1, JWT_ALG_HS256, "{\"typ\":\"JWT\"}", "{\"iss\":\"me\"}");
	TOK[8] = mk(&K1, JWT_ALG_HS256, "{\"alg\":5}", "{\"iss\":\"me\"}");
	TOK[9] = mk(&K1, JWT_ALG_HS256, H, "{\"iss\":\"me\"");
	TOK[10] = mk(&K1, JWT_ALG_HS256, H, "{\"iss\":\"me\",\"aud\":\"x\",\"exp\":1699999990}");
	TOK[11] = mk(&K1, JWT_ALG_HS256, H, "{\"iss\":\"me\",\"aud\":\"x\",\"nbf\":1700000100}");
	TOK[12] = mk(&K1, JWT_ALG_HS256, H, "{\"iss\":\"you\",\"aud\":\"x\"}");
	TOK[13] = mk(NULL, JWT_ALG_NONE, "{\"alg\":\"none\"}", "{\"iss\":\"me\",\"aud\":\"x\"}");
	TOK[14] = mk(&K1, JWT_ALG_HS384, "{\"alg\":\"HS384\"}", "{\"iss\":\"me\",\"aud\":\"x\"}");
	TOK[15] = mk(&K1, JWT_ALG_HS256, H, "{\"iss\":\"me\",\"aud\":\"x\",\"n\":1}");
	{ size_t l = strlen(TOK[15]); TOK[15][l - 2] = TOK[15][l - 2] == 'A' ? 'B' : 'A'; }
	TOK[16] = strdup("eyJhbGciOiJIUzI1NiJ9.eyJpc3MiOiJtZSJ9.!!!!");
	TOK[17] = mk(&K1, JWT_ALG_HS256, H, "{\"iss\":\"me\",\"aud\":\"x\",\"exp\":1700009999}");
	TOK[18] = mk(&K1, JWT_ALG_HS256, H, "{\"iss\":\"me\",\"aud\":\"x\",\"sub\":\"other\",\"nbf\":1}");
	TOK[19] = mk(&K1, JWT_ALG_HS256, H, "{\"iss\":\"me\",\"aud\":\"x\",\"exp\":\"soon\"}");
	TOK[20] = mk(&K1, JWT_ALG_HS256, "{\"alg\":\"HS256\",\"kid\":\"fail\"}", "{\"iss\":\"me\",\"aud\":\"x\"}");
	TOK[21] = mk(&K1, JWT_ALG_HS256, "{\"alg\":\"HS256\",\"kid\":\"bad\"}", "{\"iss\":\"me\",\"aud\":\"x\"}");
	TOK[22] = mk(&K2, JWT_ALG_HS256, "{\"alg\":\"HS256\",\"kid\":\"k2\"}", "{\"iss\":\"me\",\"aud\":\"x\"}");
	TOK[23] = mk(&KW, JWT_ALG_HS256, "{\"alg\":\"HS256\",\"kid\":\"weak\"}", "{\"iss\":\"me\",\"aud\":\"x\"}");
	{ int o = sprintf(big, "{\"iss\":\"me\",\"aud\":\"x\",\"pad\":\""); memset(big + o, 'p', 20000); strcpy(big + o + 20000, "\"}"); }
	TOK[24] = mk(&K1, JWT_ALG_HS256, H, big);
	TOK[25] = mk(NULL, JWT_ALG_NONE, "{\"alg\":\"none\"}", "{\"iss\":\"me\",\"aud\":\"x\",\"exp\":1700009999}");
	TOK[26] = mk(&K1, JWT_ALG_HS256, H, "{\"iss\":\"me\",\"aud\":\"y\"}");
	TOK[27] = mk(NULL, JWT_ALG_NONE, "{\"alg\":\"none\"}", "[]");
	TOK[28] = mk(&K1, JWT_ALG_HS256, H, "[\"iss\",\"me\"]");
	TOK[29] = mk(&K1, JWT_ALG_HS256, "[\"alg\",\"HS256\"]", "{\"iss\":\"me\"}");
	TOK[30] = mk(NULL, JWT_ALG_NONE, "{\"alg\":\"none\"}", "{}");
	TOK[31] = mk(&KRSA, JWT_ALG_RS256, "{\"alg\":\"RS256\",\"typ\":\"JWT\"}", "{\"iss\":\"me\",\"aud\":\"x\"}");
	TOK[32] = mk(&KRSA, JWT_ALG_RS256, "{\"alg\":\"RS256\",\"typ\":\"JWT\"}", "{\"iss\":\"me\",\"aud\":\"x\",\"n\":2}");
	{ size_t l = strlen(TOK[32]); TOK[32][l - 5] = TOK[32][l - 5] == 'A' ? 'B' : 'A'; }
	/* string claims whose value is present but not a string (validly signed) */
	TOK[33] = mk(&K1, JWT_ALG_HS256, H, "{\"iss\":\"me\",\"sub\":\"s\",\"aud\":[\"x\"]}");
	TOK[34] = mk(&K1, JWT_ALG_HS256, H, "{\"iss\":\"me\",\"sub\":\"s\",\"aud\":[\"y\",\"z\"]}");
	TOK[35] = mk(&K1, JWT_ALG_HS256, H, "{\"iss\":5,\"sub\":\"s\",\"aud\":\"x\"}");
	TOK[36] = mk(&K1, JWT_ALG_HS256, H, "{\"iss\":\"me\",\"sub\":null,\"aud\":\"x\"}");
	TOK[37] = mk(&K1, JWT_ALG_HS256, H, "{\"iss\":\"me\",\"sub\":\"s\",\"aud\":null}");
	TOK[38] = mk(&K1, JWT_ALG_HS256, H, "{\"iss\":[\"me\"],\"sub\":\"s\",\"aud\":\"x\"}");
	TOK[39] = mk(&K1, JWT_ALG_HS256, H, "{\"iss\":\"me\",\"sub\":\"s\",\"aud\":\"x\"}");
	TOK[40] = mk(&K1, JWT_ALG_HS256, H, "{\"iss\":\"me\",\"sub\":\"t\",\"aud\":\"x\"}");
	TOK[41] = mk(&K1, JWT_ALG_HS256, H, "{\"iss\":\"me\",\"sub\":\"s\",\"aud\":{\"x\":1}}");
	/* the same EC key reached in its public and in its private JWK form (public first: its pristine verdict is taken before
	 * any verification with a private key has happened in the process) */
	TOK[42] = mk(&KEC, JWT_ALG_ES256, "{\"alg\":\"ES256\",\"kid\":\"ecpub\"}", "{\"iss\":\"me\",\"aud\":\"x\"}");
	TOK[43] = mk(&KEC, JWT_ALG_ES256, "{\"alg\":\"ES256\",\"kid\":\"ecpriv\"}", "{\"iss\":\"me\",\"aud\":\"x\"}");
	/* expires one second after the clock value of the histories and becomes valid exactly then: accepted at that reading, refused one second
	 * earlier or later; it is verified on a clock that advances with every reading, so a verification that reads the clock more than once shows */
	{ char pl[160]; snprintf(pl, sizeof(pl), "{\"iss\":\"me\",\"aud\":\"x\",\"exp\":%ld,\"nbf\":%ld}", (long)NOW + 1, (long)NOW); TOK[44] = mk(&K1, JWT_ALG_HS256, H, pl); }
}

/* checker callback: select key by kid */
static int kid_cb(jwt_t *jwt, jwt_config_t *cfg)
{
	jwt_value_t v;
	jwt_set_GET_STR(&v, "kid");
	if (jwt_header_get(jwt, &v) != JWT_VALUE_ERR_NONE)
		return 0;
	if (!strcmp(v.str_val, "fail")) return 1;
	if (!strcmp(v.str_val, "bad")) { cfg->key = IECpub; cfg->alg = JWT_ALG_ES256; }
	else if (!strcmp(v.str_val, "k2")) { cfg->key = I2; cfg->alg = JWT_ALG_HS256; }
	else if (!strcmp(v.str_val, "weak")) { cfg->key = IW; cfg->alg = JWT_ALG_HS256; }
	else if (!strcmp(v.str_val, "ecpub")) { cfg->key = IECpub; cfg->alg = JWT_ALG_ES256; }
	else if (!strcmp(v.str_val, "ecpriv")) { cfg->key = IECpriv; cfg->alg = JWT_ALG_ES256; }
	return 0;
}

#define NCFG 6
static int PRISTINE[2][NCFG][NTOK];
static int cur_prov;
static jwt_checker_t *mk_checker(int cfg)
{
	jwt_checker_t *c = jwt_checker_new();
	if (!c) vh_harness_fail("checker_new");
	switch (cfg) {
	case 0: jwt_checker_setkey(c, JWT_ALG_HS256, I1); jwt_checker_claim_set(c, JWT_CLAIM_ISS, "me"); break;
	case 1: jwt_checker_setkey(c, JWT_ALG_HS256, I1); jwt_checker_claim_set(c, JWT_CLAIM_ISS, "me"); jwt_checker_setcb(c, kid_cb, NULL); break;
	case 2: break;
	case 3: jwt_checker_setkey(c, JWT_ALG_NONE, I1A); jwt_checker_time_leeway(c, JWT_CLAIM_EXP, -1); jwt_checker_claim_set(c, JWT_CLAIM_AUD, "x"); break;
	case 4: jwt_checker_setkey(c, JWT_ALG_RS256, IRSApub); jwt_checker_claim_set(c, JWT_CLAIM_ISS, "me"); break;
	case 5: jwt_checker_setkey(c, JWT_ALG_HS256, I1); jwt_checker_claim_set(c, JWT_CLAIM_ISS, "me"); jwt_checker_claim_set(c, JWT_CLAIM_SUB, "s");
		jwt_checker_claim_set(c, JWT_CLAIM_AUD, "x"); jwt_checker_time_leeway(c, JWT_CLAIM_EXP, 5); jwt_checker_time_leeway(c, JWT_CLAIM_NBF, 5); break;
	}
	if (jwt_checker_error(c)) vh_harness_fail("checker config failed: %s", jwt_checker_error_msg(c));
	return c;
}

static void put_msg(const char *m) { char b[72]; snprintf(b, sizeof(b), "%.64s", m ? m : ""); vh_put_jstr(stdout, b); }

/* clock readings that an implementation may treat specially ((time_t)-1 is also time()'s error value); a step at one of them is judged
 * against the fresh twin only (the pristine table is taken at NOW) */
static const int64_t ODD_CLOCK[] = { -1, -2, 0, 1, 2147483647LL, 2147483648LL, 4294967295LL, 4294967296LL, 253402300800LL };
static int odd_clock = -1;	/* index into ODD_CLOCK for the current step, -1: the regular clock */
static void verify_step(long hist, int step, int cfg, jwt_checker_t *reused, int tok, int clear)
{
	jwt_checker_t *fresh = mk_checker(cfg);
	int rr, rf, er, ef;
	char mr[80], mf[80];
	vh_now = odd_clock >= 0 ? (time_t)ODD_CLOCK[odd_clock] : NOW;
	if (clear) jwt_checker_error_clear(reused);
	/* the reused checker receives every token in one and the same receive buffer, as a server loop does (what it may remember about an
	 * earlier token must not be tied to the address the text was at) */
	if (TOK[tok]) {
		static char *rbuf; static size_t rcap;
		size_t need = strlen(TOK[tok]) + 1;
		if (need > rcap) { size_t m = 0; for (int q = 0; q < NTOK; q++) if (TOK[q] && strlen(TOK[q]) + 1 > m) m = strlen(TOK[q]) + 1; rbuf = realloc(rbuf, m); rcap = m; }
		memcpy(rbuf, TOK[tok], need);
		if (tok == 44 && odd_clock < 0) vh_tick = 1;
		rr = jwt_checker_verify(reused, rbuf);
		vh_tick = 0;
	} else
		rr = jwt_checker_verify(reused, TOK[tok]);
	er = jwt_checker_error(reused); snprintf(mr, sizeof(mr), "%.64s", jwt_checker_error_msg(reused));
	vh_now = odd_clock >= 0 ? (time_t)ODD_CLOCK[odd_clock] : NOW;	/* the twin reads the same clock from the start */
	if (tok == 44 && odd_clock < 0) vh_tick = 1;
	rf = jwt_checker_verify(fresh, TOK[tok]);
	vh_tick = 0;
	ef = jwt_checker_error(fresh); snprintf(mf, sizeof(mf), "%.64s", jwt_checker_error_msg(fresh));
	printf("[\"V\",%ld,%d,%d,%d,%d,%d,%d,", hist, step, cfg, tok, clear, rr, er); put_msg(mr);
	printf(",%d,%d,", rf, ef); put_msg(mf);
	if (odd_clock >= 0) printf(",null]\n"); else printf(",%d]\n", PRISTINE[cur_prov][cfg][tok]);
	jwt_checker_free(fresh);
}

/* ---- builder side ---------------------------------------------------------- */
typedef struct { int action; int step; } bctx_t;
static int b_cb(jwt_t *jwt, jwt_config_t *cfg)
{
	bctx_t *x = cfg->ctx;
	jwt_value_t v;
	switch (x->action) {
	case 1: return 1;
	case 2: cfg->key = IECpub; cfg->alg = JWT_ALG_ES256; break;
	case 3: cfg->key = IW; cfg->alg = JWT_ALG_HS256; break;
	case 5: cfg->key = I2; cfg->alg = JWT_ALG_HS256; break;	/* another usable key for this token only */
	case 4: jwt_set_SET_INT(&v, "step", x->step); v.replace = 1; jwt_claim_set(jwt, &v);
		jwt_set_SET_STR(&v, "iss", "edited"); v.replace = 1; jwt_claim_set(jwt, &v); break;
	default: break;
	}
	return 0;
}
#define NBCFG 5
static int nocb;	/* builders without a callback (events carry cfg + 10) */
static const int BALG[NBCFG] = { JWT_ALG_NONE, JWT_ALG_HS256, JWT_ALG_ES256, JWT_ALG_EDDSA, JWT_ALG_PS256 };
static jwt_builder_t *mk_builder(int cfg, bctx_t *ctx)
{
	jwt_builder_t *b = jwt_builder_new();
	jwt_value_t v;
	const jwk_item_t *key = cfg == 1 ? I1 : cfg == 2 ? IECpriv : cfg == 3 ? IED : cfg == 4 ? IRSA : NULL;
	if (!b) vh_harness_fail("builder_new");
	if (key && jwt_builder_setkey(b, (jwt_alg_t)BALG[cfg], key)) vh_harness_fail("builder setkey: %s", jwt_builder_error_msg(b));
	jwt_set_SET_STR(&v, "iss", "me"); jwt_builder_claim_set(b, &v);
	jwt_builder_time_offset(b, JWT_CLAIM_EXP, 100);
	if (!nocb) jwt_builder_setcb(b, b_cb, ctx);
	return b;
}
typedef struct { int hdr; const char *name; const char *json; } jose_t;
static const jose_t JOSE[] = {
	{ 1, "b64", "false" }, { 1, "b64", "true" }, { 1, "b64", "\"false\"" }, { 1, "crit", "[\"b64\"]" }, { 1, "crit", "[\"exp\"]" }, { 1, "crit", "[]" }, { 1, "crit", "\"exp\"" },
	{ 1, "zip", "\"DEF\"" }, { 1, "enc", "\"A128GCM\"" }, { 1, "cty", "\"JWT\"" }, { 1, "jku", "\"https://keys.example/\"" }, { 1, "x5u", "\"https://x.example/\"" },
	{ 1, "x5c", "[]" }, { 1, "x5c", "[\"MIIB\"]" }, { 1, "x5t", "\"AAAA\"" }, { 1, "x5t#S256", "\"AAAA\"" }, { 1, "jwk", "{}" }, { 1, "jwk", "{\"kty\":\"oct\",\"k\":\"\"}" },
	{ 1, "kid", "7" }, { 1, "kid", "[null]" }, { 1, "kid", "\"\"" }, { 1, "nonce", "\"n\"" }, { 1, "url", "\"u\"" }, { 1, "epk", "{}" }, { 1, "p2c", "4096" }, { 1, "iv", "\"\"" },
	{ 1, "tag", "false" }, { 1, "typ", "[]" }, { 1, "typ", "false" }, { 1, "ppt", "\"shaken\"" }, { 1, "svt", "[1]" },
	{ 0, "jti", "\"id-1\"" }, { 0, "jti", "7" }, { 0, "cnf", "{\"jwk\":{}}" }, { 0, "scope", "\"a b\"" }, { 0, "azp", "{}" }, { 0, "auth_time", "\"x\"" }, { 0, "amr", "[]" },
	{ 0, "nonce", "false" }, { 0, "iat", "false" }, { 0, "iat", "\"now\"" }, { 0, "exp", "false" }, { 0, "nbf", "[0]" }, { 0, "aud", "[\"a\",\"b\"]" }, { 0, "iss", "{}" }, { 0, "sub", "0" } };
#define NJOSE ((unsigned long)(sizeof(JOSE) / sizeof(JOSE[0])))
/* scalars go through the typed setters (the JSON setter takes objects and arrays only) */
static void jose_put(jwt_builder_t *b, const jose_t *j)
{
	jwt_value_t v;
	char s[64];
	if (!strcmp(j->json, "true") || !strcmp(j->json, "false")) jwt_set_SET_BOOL(&v, j->name, j->json[0] == 't');
	else if (j->json[0] >= '0' && j->json[0] <= '9') jwt_set_SET_INT(&v, j->name, atol(j->json));
	else if (j->json[0] == '"') { snprintf(s, sizeof(s), "%s", j->json + 1); s[strlen(s) - 1] = 0; jwt_set_SET_STR(&v, j->name, s); }
	else jwt_set_SET_JSON(&v, j->name, (char *)j->json);
	v.replace = 1;
	if (j->hdr) jwt_builder_header_set(b, &v); else jwt_builder_claim_set(b, &v);
}

static void gen_step(long hist, int step, int cfg, jwt_builder_t *reused, bctx_t *rctx, int action, int clear)
{
	bctx_t fctx = { action, step };
	jwt_builder_t *fresh = mk_builder(cfg, &fctx);
	char *tr, *tf, mr[80], mf[80];
	int er, ef, same_hp = 0, same = 0, refr = -1, reff = -1;
	const vh_key_t *vk = cfg == 1 ? &K1 : cfg == 2 ? &KEC : cfg == 3 ? &KED : cfg == 4 ? &KRSA : NULL;
	vh_now = odd_clock >= 0 ? (time_t)ODD_CLOCK[odd_clock] : NOW + step;
	rctx->action = action; rctx->step = step;
	if (clear) jwt_builder_error_clear(reused);
	/* reconfiguration between generates, applied to the reused builder and to its fresh twin alike:
	 * 6 = switch to alg none / no key for this token, 7 = put a typ header of the application's own (without replace) */
	if (action == 6) { jwt_builder_setkey(reused, JWT_ALG_NONE, NULL); jwt_builder_setkey(fresh, JWT_ALG_NONE, NULL); vk = NULL; }
	if (action == 8) {
		/* a header and a claim string that is not valid UTF-8: refused or not, generate afterwards either works or says why */
		jwt_value_t hv;
		jwt_set_SET_STR(&hv, "x", "caf\xe9"); jwt_builder_header_set(reused, &hv);
		jwt_set_SET_STR(&hv, "x", "caf\xe9"); jwt_builder_header_set(fresh, &hv);
		if (step & 1) {
			jwt_set_SET_STR(&hv, "y", "\xff\xfe"); jwt_builder_claim_set(reused, &hv);
			jwt_set_SET_STR(&hv, "y", "\xff\xfe"); jwt_builder_claim_set(fresh, &hv);
		}
	}
	if (action == 9) {
		/* one registered JOSE header parameter (RFC 7515 4.1, RFC 7797, RFC 7516) or registered claim with a value of some JSON type: the
		 * application may put any of them; generate afterwards either works or says why */
		const jose_t *j = &JOSE[(unsigned long)(hist * 3 + step) % NJOSE];
		jose_put(reused, j);
		jose_put(fresh, j);
	}
	if (action == 7) {
		jwt_value_t hv;
		jwt_set_SET_STR(&hv, "typ", "at+jwt"); jwt_builder_header_set(reused, &hv);
		jwt_set_SET_STR(&hv, "typ", "at+jwt"); jwt_builder_header_set(fresh, &hv);
	}
	tr = jwt_builder_generate(reused);
	er = jwt_builder_error(reused); snprintf(mr, sizeof(mr), "%.64s", jwt_builder_error_msg(reused));
	tf = jwt_builder_generate(fresh);
	ef = jwt_builder_error(fresh); snprintf(mf, sizeof(mf), "%.64s", jwt_builder_error_msg(fresh));
	if (tr && tf) {
		const char *dr = strrchr(tr, '.'), *df = strrchr(tf, '.');
		same = !strcmp(tr, tf);
		same_hp = (dr - tr) == (df - tf) && !strncmp(tr, tf, (size_t)(dr - tr));
		if (action == 5 && !nocb) vk = &K2;
		if (vk) { refr = vh_ref_token_valid(vk, tr, NULL); reff = vh_ref_token_valid(vk, tf, NULL); }
	}
	printf("[\"G\",%ld,%d,%d,%d,%d,%d,%d,", hist, step, cfg + 10 * nocb, action, clear, tr == NULL, er); put_msg(mr);
	printf(",%d,%d,", tf == NULL, ef); put_msg(mf);
	printf(",%d,%d,%d,%d,%d]\n", same_hp, same, refr, reff, (cfg != 2 && cfg != 4) || (action == 5 && !nocb) || action == 6);
	free(tr); free(tf);
	/* undo the reconfiguration on the reused builder (the fresh twin is discarded) */
	if (action == 6) {
		const jwk_item_t *key = cfg == 1 ? I1 : cfg == 2 ? IECpriv : cfg == 3 ? IED : cfg == 4 ? IRSA : NULL;
		jwt_builder_setkey(reused, (jwt_alg_t)BALG[cfg], key);
		jwt_builder_error_clear(reused);
	}
	if (action == 7) jwt_builder_header_del(reused, "typ");
	if (action == 8) { jwt_builder_header_del(reused, "x"); jwt_builder_claim_del(reused, "y"); }
	if (action == 9) {
		const jose_t *j = &JOSE[(unsigned long)(hist * 3 + step) % NJOSE];
		if (j->hdr) jwt_builder_header_del(reused, j->name); else jwt_builder_claim_del(reused, j->name);
		if (!j->hdr && !strcmp(j->name, "iss")) { jwt_value_t hv; jwt_set_SET_STR(&hv, "iss", "me"); jwt_builder_claim_set(reused, &hv); }	/* as mk_builder left it */
	}
	jwt_builder_free(fresh);
}

int main(int argc, char **argv)
{
	vh_args_t a;
	long hist = 0;
	vh_parse_args(argc, argv, &a);
	vh_alloc_install();	/* foreign frees and writes after free, also inside the uninstrumented JSON library */
	vh_rng_seed(&rng, a.seed, 11);
	if (vh_key_gen(&K1, "oct:32", &rng) || vh_key_gen(&K2, "oct:48", &rng) || vh_key_gen(&KW, "oct:16", &rng) ||
	    vh_key_gen(&KEC, "ec:P-256", &rng) || vh_key_gen(&KED, "okp:Ed25519", &rng) || vh_key_gen(&KRSA, "rsa:2048", &rng))
		vh_harness_fail("keygen");
	/* every key carries the same kid (RFC 7517 4.5 allows it for keys of different kinds): nothing may be remembered under it */
	vh_load_kid = "shared-kid";
	I1 = vh_key_load(&K1, 1, NULL, &kset); I1A = vh_key_load(&K1, 1, "HS256", &kset); I2 = vh_key_load(&K2, 1, NULL, &kset);
	IW = vh_key_load(&KW, 1, NULL, &kset); IECpriv = vh_key_load(&KEC, 1, NULL, &kset); IECpub = vh_key_load(&KEC, 0, NULL, &kset);
	IED = vh_key_load(&KED, 1, NULL, &kset); IRSA = vh_key_load(&KRSA, 1, NULL, &kset); IRSApub = vh_key_load(&KRSA, 0, NULL, &kset);
	vh_load_kid = NULL;
	build_pool();
	for (int t = 0; t < NTOK; t++) printf("[\"TOK\",%d,\"%s\"]\n", t, TOKNAME[t]);
	/* pristine verdicts: every (provider, configuration, token) on a fresh checker, tokens that may be valid first, so
	 * that no failing verification has happened in this process when a valid token is judged */
	{
		static const int ORDER_FIRST[] = { 17, 18, 22, 24, 25, 30, 31, 28 };
		int done[NTOK] = { 0 };
		vh_now = NOW;
		for (int pass = 0; pass < 2; pass++)
		for (int q = 0; q < (pass == 0 ? (int)(sizeof(ORDER_FIRST) / sizeof(int)) : NTOK); q++) {
			int t = pass == 0 ? ORDER_FIRST[q] : q;
			if (done[t]) continue;
			done[t] = 1;
			for (int prov = 0; prov < 2; prov++) for (int cfg = 0; cfg < NCFG; cfg++) {
				/* each verdict in a child of its own, forked before this process has verified anything: whatever a verification leaves
				 * behind outside the checker (statics, thread-locals, provider state) cannot reach the next pristine verdict, and the
				 * pristine pass leaves nothing behind for the histories */
				int st = 0;
				pid_t pid;
				fflush(stdout);
				pid = fork();
				for (int tries = 0; pid < 0 && tries < 20; tries++) { usleep(200000); pid = fork(); }	/* a loaded machine may refuse a fork for a moment */
				if (pid < 0) vh_harness_fail("fork");
				if (pid == 0) {
					jwt_checker_t *c;
					vh_set_prov(prov);
					c = mk_checker(cfg);
					_exit(jwt_checker_verify(c, TOK[t]) ? 1 : 0);
				}
				if (waitpid(pid, &st, 0) != pid || !WIFEXITED(st) || WEXITSTATUS(st) > 1)
					vh_harness_fail("pristine child for prov %d cfg %d token %d died (status %d)", prov, cfg, t, st);
				PRISTINE[prov][cfg][t] = WEXITSTATUS(st);
			}
		}
	}
	if (!strcmp(a.mode, "pairs")) {
		for (int prov = 0; prov < 2; prov++)
		for (int cfg = 0; cfg < NCFG; cfg++)
		for (int t1 = 0; t1 < NTOK; t1++)
		for (int t2 = 0; t2 < NTOK; t2++)
		for (int cl = 0; cl < 2; cl++, hist++) {
			jwt_checker_t *c;
			if (!vh_mine(&a, hist)) continue;
			vh_case_begin(hist, "\"mode\":\"pairs\",\"cfg\":%d,\"t1\":%d,\"t2\":%d,\"clear\":%d", cfg, t1, t2, cl);
			vh_set_prov(prov); cur_prov = prov;
			c = mk_checker(cfg);
			verify_step(hist, 0, cfg, c, t1, 0);
			verify_step(hist, 1, cfg, c, t2, cl);
			verify_step(hist, 2, cfg, c, 17, 0);	/* and a valid token last */
			jwt_checker_free(c);
		}
		for (int prov = 0; prov < 2; prov++)
		for (int nc = 0; nc < 2; nc++)
		for (int cfg = 0; cfg < NBCFG; cfg++)
		for (int a1 = 0; a1 < 10; a1++)
		for (int a2 = 0; a2 < 10; a2++)
		for (int cl = 0; cl < 2; cl++, hist++) {
			bctx_t ctx = { 0, 0 };
			jwt_builder_t *b;
			if (!vh_mine(&a, hist)) continue;
			nocb = nc;
			vh_case_begin(hist, "\"mode\":\"bpairs\",\"cfg\":%d,\"a1\":%d,\"a2\":%d,\"clear\":%d", cfg, a1, a2, cl);
			vh_set_prov(prov);
			b = mk_builder(cfg, &ctx);
			gen_step(hist, 0, cfg, b, &ctx, a1, 0);
			gen_step(hist, 1, cfg, b, &ctx, a2, cl);
			gen_step(hist, 2, cfg, b, &ctx, 0, 0);
			jwt_builder_free(b);
		}
	} else {
		for (long h = 0; h < a.n; h++) {
			int len;
			if (!vh_mine(&a, h)) continue;
			vh_rng_seed(&rng, a.seed, 6000000 + (uint64_t)h);
			len = 2 + (int)vh_below(&rng, 19);
			vh_case_begin(h, "\"mode\":\"rand\",\"len\":%d", len);
			cur_prov = (int)vh_below(&rng, 2);
			vh_set_prov(cur_prov);
			if (vh_below(&rng, 3)) {
				int cfg = (int)vh_below(&rng, NCFG);
				jwt_checker_t *c = mk_checker(cfg);
				for (int s = 0; s < len; s++) {
					odd_clock = vh_below(&rng, 5) == 0 ? (vh_below(&rng, 2) ? 0 : (int)vh_below(&rng, 9)) : -1;
					verify_step(h, s, cfg, c, (int)vh_below(&rng, NTOK), (int)vh_below(&rng, 2));
				}
				odd_clock = -1;
				jwt_checker_free(c);
			} else {
				int cfg = (int)vh_below(&rng, NBCFG);
				bctx_t ctx = { 0, 0 };
				jwt_builder_t *b;
				nocb = (int)vh_below(&rng, 2);
				b = mk_builder(cfg, &ctx);
				for (int s = 0; s < len; s++) {
					odd_clock = vh_below(&rng, 5) == 0 ? (vh_below(&rng, 2) ? 0 : (int)vh_below(&rng, 9)) : -1;
					gen_step(h, s, cfg, b, &ctx, (int)vh_below(&rng, 10), (int)vh_below(&rng, 2));
				}
				odd_clock = -1;
				jwt_builder_free(b);
			}
		}
	}
	jwks_free(kset);
	for (int t = 0; t < NTOK; t++) free(TOK[t]);
	vh_key_free(&K1); vh_key_free(&K2); vh_key_free(&KW); vh_key_free(&KEC); vh_key_free(&KED); vh_key_free(&KRSA);
	return 0;
}

"""C18 — separate builders/checkers sharing one keyring are safe to use concurrently."""
import json, os, re, subprocess
import vf


def tsan_reports(text):
    reps = []
    for blk in text.split("=================="):
        if "WARNING: ThreadSanitizer:" not in blk:
            continue
        m = re.search(r"WARNING: ThreadSanitizer: ([^\n(]+)", blk)
        kind = m.group(1).strip().replace(" ", "-")
        frames = re.findall(r"#\d+ (\S+) (\S+)", blk)
        lib = [(fn, loc) for fn, loc in frames if "/libjwt/" in loc]
        drv = [(fn, loc) for fn, loc in frames if "/verif/drivers/" in loc]
        reps.append(dict(kind=kind, libjwt_frames=sorted(set(fn for fn, _ in lib))[:6], driver_frames=sorted(set(fn for fn, _ in drv))[:4], text=blk[:3000]))
    return reps


def run_one(rep, binary, prov, nthr, nops, repeats, seed, rd, label, tsan, mode=None):
    env = dict(os.environ)
    env.update(vf.SAN_ENV)
    env["VH_CASE_FILE"] = os.path.join(rd, "%s.case" % label)
    env["TSAN_OPTIONS"] = "halt_on_error=0:exitcode=0:report_signal_unsafe=0:history_size=4"
    p = subprocess.run([binary, "--arg1", str(prov), "--n", str(nops), "--arg2", "%d,%d" % (nthr, repeats), "--seed", str(seed)] + (["--mode", mode] if mode else []),
                       capture_output=True, text=True, env=env, timeout=3400)
    open(os.path.join(rd, label + ".err"), "w").write(p.stderr)
    prov_name = ["openssl", "gnutls"][prov]
    if p.returncode != 0:
        if "@@HARNESS" in p.stderr:
            raise vf.HarnessFailure(p.stderr[-1500:])
        key = vf.san_key(p.stderr) or "exit:%d" % p.returncode
        rep.violation("%s:%s:%s" % (label.split("-")[0], prov_name, key), "concurrent driver died: " + key, dict(stderr=p.stderr[-3000:]))
    ended = False
    for line in p.stdout.splitlines():
        if line.startswith('["R"'):
            _, r, n, total, mism, overlaps, yields = json.loads(line)
            rep.evaluations += total
            rep.count("thread_operations", total); rep.count("overlapping_same_key_pairs", overlaps); rep.count("injected_yields", yields)
            rep.count("repeats")
            rep.distinct.add((label, prov, r, n))
            if mode == "cold":
                rep.count("cold_start_processes")
            elif overlaps < total // 20:
                rep.inconclusive.append("%s/%s repeat %d: only %d overlapping same-key pairs for %d operations" % (label, prov_name, r, overlaps, total))
        elif line.startswith('["X"'):
            _, t, i, kind, key, brc, grc, tokeq = json.loads(line)
            what = "generate" if kind == 0 else "verify"
            rep.violation("result-differs-from-sequential:%s:%s:%s" % (what, key, prov_name),
                          "%s under concurrency gave rc %d (sequential %d), token equal: %d" % (what, grc, brc, tokeq),
                          dict(thread=t, op=i, key=key, provider=prov_name, sequential_rc=brc, concurrent_rc=grc, token_equal=tokeq))
        elif line.startswith('["END"'):
            ended = True
    if p.returncode == 0 and not ended:
        rep.inconclusive.append("%s/%s: driver output incomplete" % (label, prov_name))
    if tsan:
        reps = tsan_reports(p.stderr)
        for r in reps:
            if r["libjwt_frames"]:
                rep.count("tsan_reports_libjwt")
                rep.violation("tsan:%s:%s" % (r["kind"], "+".join(r["libjwt_frames"][:3])), "ThreadSanitizer report with libjwt frames (%s)" % prov_name,
                              dict(provider=prov_name, report=r["text"]))
            elif r["driver_frames"]:
                rep.count("tsan_reports_driver_only")
                rep.violation("tsan-harness:%s:%s" % (r["kind"], "+".join(r["driver_frames"][:2])), "ThreadSanitizer report inside the harness itself (%s)" % prov_name,
                              dict(provider=prov_name, report=r["text"]))
            else:
                rep.count("tsan_reports_foreign")
        rep.count("tsan_reports_total", len(reps))


def run(tier, seed, replay):
    rep = vf.Report("C18", tier, seed)
    thorough = tier == "thorough"
    nthr, nops, repeats = (16, 1200, 8) if thorough else (12, 220, 3)   # more threads than any small pool or table an implementation is likely to keep (8)
    rep.rule = ("%d threads x %d operations x %d repeats x 2 providers on the ThreadSanitizer build (and once on the ASan build): each thread "
                "uses its own builders/checkers, all share one keyring with 12 keys (five oct keys of 32..300 octets, three of them under one algorithm and two longer than any hash block; RSA, RSA-PSS, P-256/384/521, Ed25519, Ed448); each "
                "repeat concentrates on three keys so that threads collide; an allocator installed through jwt_set_alloc yields/sleeps at "
                "random inside library calls; results are compared with a sequential pre-pass. distinct = distinct (build, provider, repeat) "
                "runs; the evidence reports thread-operations, overlapping same-key operation pairs and injected yields" % (nthr, nops, repeats))
    rep.assumptions = ["schedules are sampled, not enumerated", "races inside uninstrumented OpenSSL/GnuTLS/jansson are invisible (and not libjwt's property)",
                       "a run with fewer overlapping same-key pairs than 5% of its operations is inconclusive"]
    rd = vf.run_dir("C18")
    bt = vf.driver("d_c18", "tsan", clock=True)
    ba = vf.driver("d_c18", "asan", clock=True)
    for prov in (0, 1):
        run_one(rep, bt, prov, nthr, nops, repeats, seed, rd, "tsan-p%d" % prov, True)
    for prov in (0, 1):
        run_one(rep, ba, prov, nthr, nops, 1 if not thorough else 2, seed + 1, rd, "asan-p%d" % prov, False)
    # cold starts: fresh processes whose worker threads make the very first sign/verify calls of the process (first-use initialisation
    # in the library is raced); many short processes, TSan and plain builds
    bp = vf.driver("d_c18", "plain", clock=True)
    ncold = 40 if thorough else 8
    jobs = [(bt, prov, "cold-tsan-p%d-%d" % (prov, i), True, seed * 100 + i) for prov in (0, 1) for i in range(ncold)] + \
           [(bp, prov, "cold-plain-p%d-%d" % (prov, i), False, seed * 100 + 50 + i) for prov in (0, 1) for i in range(ncold)]
    for b_, prov, label, ts_, sd in jobs:
        run_one(rep, b_, prov, 18, 3, 1, sd, rd, label, ts_, mode="cold")
    rep.sample(dict(threads=nthr, ops_per_thread=nops, repeats=repeats, counters=dict(rep.counters)))
    vf.need(rep, rep.counters.get("cold_start_processes", 0) >= 4 * ncold, "cold-start processes did not all complete")
    vf.need(rep, rep.counters.get("thread_operations", 0) >= nthr * nops * repeats * 2, "not all repeats completed")
    return rep

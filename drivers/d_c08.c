/* C08: JWK import preserves the key and its metadata.  Online oracle: the harness compares the imported
 * item with the key object it generated itself (OpenSSL called directly).
 *  ["I", idx, key, priv, pad, variant_flags, ok, [mismatch names...], jwk_text(if mismatch)]
 */
#include "vh.h"
#include <openssl/pem.h>
#include <openssl/bn.h>
#include <openssl/core_names.h>

static vh_rng_t rng;
typedef struct { char *p; size_t n, cap; } tb_t;
static void tb_adds(tb_t *t, const char *s)
{
	size_t n = strlen(s);
	if (t->n + n + 1 > t->cap) { t->cap = (t->n + n + 1) * 2; t->p = realloc(t->p, t->cap); }
	memcpy(t->p + t->n, s, n + 1); t->n += n;
}
static void add_b64(tb_t *t, const char *name, const unsigned char *bin, size_t n, int pad)
{
	unsigned char *buf = calloc(1, n + (size_t)pad + 1);
	char *e;
	memcpy(buf + pad, bin, n);
	e = vh_b64u_enc_dup(buf, n + (size_t)pad);
	tb_adds(t, ",\""); tb_adds(t, name); tb_adds(t, "\":\""); tb_adds(t, e); tb_adds(t, "\"");
	free(e); free(buf);
}
static void add_bn(tb_t *t, const char *name, EVP_PKEY *pk, const char *param, int width, int pad)
{
	BIGNUM *bn = NULL;
	unsigned char buf[1100];
	int n;
	if (!EVP_PKEY_get_bn_param(pk, param, &bn)) vh_harness_fail("get_bn_param %s", param);
	n = width > 0 ? BN_bn2binpad(bn, buf, width) : BN_bn2bin(bn, buf);
	BN_free(bn);
	add_b64(t, name, buf, (size_t)n, pad);
}

static const char *OPS[8] = { "sign", "verify", "encrypt", "decrypt", "wrapKey", "unwrapKey", "deriveKey", "deriveBits" };
static const int OPBIT[8] = { 1, 2, 4, 8, 0x10, 0x20, 0x40, 0x80 };
static const char *ALGS[15] = { "none", "HS256", "HS384", "HS512", "RS256", "RS384", "RS512", "ES256", "ES384", "ES512", "PS256", "PS384", "PS512", "ES256K", "EdDSA" };

typedef struct { int alg; const char *kid; int use; int key_ops; } meta_t;	/* alg -1 absent; use 0 none 1 sig 2 enc */

/* members in random order positions: metadata first or last, extras sprinkled */
static char *make_jwk(const vh_key_t *k, int priv, int pad, meta_t *m, int extras)
{
	tb_t t = { 0 }, meta = { 0 };
	tb_adds(&meta, "");
	m->alg = -1; m->kid = NULL; m->use = 0; m->key_ops = 0;
	if (vh_below(&rng, 2)) {
		int a;
		switch (k->kind) {
		case VH_K_OCT: a = 1 + (int)vh_below(&rng, 3); break;
		case VH_K_RSA: case VH_K_RSAPSS: { static const int R[] = { 4, 5, 6, 10, 11, 12 }; a = R[vh_below(&rng, 6)]; break; }
		case VH_K_EC: a = !strcmp(k->crv, "P-256") ? 7 : !strcmp(k->crv, "P-384") ? 8 : !strcmp(k->crv, "P-521") ? 9 : 13; break;
		default: a = 14;
		}
		if (vh_below(&rng, 8) == 0) a = (int)vh_below(&rng, 15);	/* an alg of another family is still just metadata */
		m->alg = a;
		if (vh_below(&rng, 8) == 0) {
			/* a registered JOSE algorithm this library does not implement (or an unregistered string): the key is still the key, the
			 * other metadata still count; the item reports the alg as not known */
			static const char *UNK[] = { "RSA-OAEP-256", "ECDH-ES", "A256KW", "dir", "Ed25519", "RSA1_5", "HS999", "ES256k", "PBES2-HS256+A128KW", "" };
			m->alg = JWT_ALG_INVAL;
			tb_adds(&meta, ",\"alg\":\""); tb_adds(&meta, UNK[vh_below(&rng, 10)]); tb_adds(&meta, "\"");
		} else {
		tb_adds(&meta, ",\"alg\":\""); tb_adds(&meta, ALGS[a]); tb_adds(&meta, "\"");
		}
	}
	if (vh_below(&rng, 2)) {
		/* raw value the item must report / its spelling inside the JWK text (some need JSON escaping, some are spelled with \u escapes) */
		static const char *KIDS[] = { "k1", "a-much-longer-key-identifier-0123456789", "\xc3\xa9\xf0\x9f\x94\x91", "2024-01-01", " spaced ", "x",
			"DOMAIN\\key", "say \"x\"", "tab\there", "e\xc3\xa9", "slash/and%25", "line\nbreak", "%s%s%s%n", "%n%n%999999d" };
		static const char *KIDS_JSON[] = { "k1", "a-much-longer-key-identifier-0123456789", "\xc3\xa9\xf0\x9f\x94\x91", "2024-01-01", " spaced ", "x",
			"DOMAIN\\\\key", "say \\\"x\\\"", "tab\\there", "e\\u00e9", "slash\\/and%25", "line\\nbreak", "%s%s%s%n", "%n%n%999999d" };
		int kidx = (int)vh_below(&rng, 14);
		m->kid = KIDS[kidx];
		tb_adds(&meta, ",\"kid\":\""); tb_adds(&meta, KIDS_JSON[kidx]); tb_adds(&meta, "\"");
	}
	switch (vh_below(&rng, 4)) {
	case 0: m->use = 1; tb_adds(&meta, ",\"use\":\"sig\""); break;
	case 1: m->use = 2; tb_adds(&meta, ",\"use\":\"enc\""); break;
	case 2: m->use = 0; tb_adds(&meta, ",\"use\":\"other\""); break;
	default: break;
	}
	if (vh_below(&rng, 2)) {
		unsigned mask = (unsigned)vh_below(&rng, 256);
		int first = 1;
		tb_adds(&meta, ",\"key_ops\":[");
		if (vh_below(&rng, 3) == 0) {
			/* long arrays: the registered operations in any order among 1..70 other names (RFC 7517 4.3 allows them) and repeats */
			static const int NU[] = { 1, 2, 5, 8, 9, 16, 17, 33, 70 };
			int ent[96], ne = 0, nu = NU[vh_below(&rng, 9)];
			for (int i = 0; i < 8; i++) if (mask & (1u << i)) { ent[ne++] = i; m->key_ops |= OPBIT[i]; }
			for (int i = 0; i < nu; i++) ent[ne++] = 100 + i;
			if (mask && vh_below(&rng, 3) == 0) { int d = ent[0]; ent[ne++] = d; }	/* a repeated operation */
			for (int i = ne - 1; i > 0; i--) { int j = (int)vh_below(&rng, (uint64_t)i + 1), x = ent[i]; ent[i] = ent[j]; ent[j] = x; }
			if (vh_below(&rng, 2)) {	/* all other names first: the registered ones lie beyond the first nu entries */
				int w = 0, tmp[96];
				for (int i = 0; i < ne; i++) if (ent[i] >= 100) tmp[w++] = ent[i];
				for (int i = 0; i < ne; i++) if (ent[i] < 100) tmp[w++] = ent[i];
				memcpy(ent, tmp, sizeof(int) * (size_t)ne);
			}
			for (int i = 0; i < ne; i++) {
				char nm[48];
				if (ent[i] < 100) snprintf(nm, sizeof(nm), "\"%s\"", OPS[ent[i]]); else snprintf(nm, sizeof(nm), "\"urn:example:op%d\"", ent[i] - 100);
				tb_adds(&meta, first ? "" : ","); tb_adds(&meta, nm); first = 0;
			}
		} else {
		for (int i = 0; i < 8; i++) if (mask & (1u << i)) { tb_adds(&meta, first ? "\"" : ",\""); tb_adds(&meta, OPS[i]); tb_adds(&meta, "\""); first = 0; m->key_ops |= OPBIT[i]; }
		if (vh_below(&rng, 3) == 0) { tb_adds(&meta, first ? "\"customOp\"" : ",\"customOp\""); first = 0; }
		if (vh_below(&rng, 5) == 0) { tb_adds(&meta, first ? "7" : ",7"); first = 0; }
		}
		tb_adds(&meta, "]");
	}
	tb_adds(&t, "{\"kty\":");
	switch (k->kind) {
	case VH_K_OCT:
		tb_adds(&t, "\"oct\"");
		if (k->octlen % 3 && vh_below(&rng, 4) == 0) {
			/* the same bytes spelled with '=' padding, sometimes with further characters after it */
			char *e = vh_b64u_enc_dup(k->oct, k->octlen);
			tb_adds(&t, ",\"k\":\""); tb_adds(&t, e); tb_adds(&t, k->octlen % 3 == 1 ? "==" : "=");
			if (vh_below(&rng, 2)) tb_adds(&t, "QUFBQUFBQUFBQUFBQUFBQUFB");
			tb_adds(&t, "\"");
			free(e);
		} else
			add_b64(&t, "k", k->oct, k->octlen, 0);
		if (extras & 1) tb_adds(&t, ",\"n\":\"AQAB\",\"crv\":\"P-256\"");
		break;
	case VH_K_RSA: case VH_K_RSAPSS:
		tb_adds(&t, "\"RSA\"");
		add_bn(&t, "n", k->pkey, OSSL_PKEY_PARAM_RSA_N, 0, pad);
		add_bn(&t, "e", k->pkey, OSSL_PKEY_PARAM_RSA_E, 0, pad);
		if (priv) {
			add_bn(&t, "d", k->pkey, OSSL_PKEY_PARAM_RSA_D, 0, pad);
			add_bn(&t, "p", k->pkey, OSSL_PKEY_PARAM_RSA_FACTOR1, 0, pad);
			add_bn(&t, "q", k->pkey, OSSL_PKEY_PARAM_RSA_FACTOR2, 0, pad);
			add_bn(&t, "dp", k->pkey, OSSL_PKEY_PARAM_RSA_EXPONENT1, 0, pad);
			add_bn(&t, "dq", k->pkey, OSSL_PKEY_PARAM_RSA_EXPONENT2, 0, pad);
			add_bn(&t, "qi", k->pkey, OSSL_PKEY_PARAM_RSA_COEFFICIENT1, 0, pad);
		}
		if (extras & 1) tb_adds(&t, ",\"x\":\"AAAA\",\"y\":\"BBBB\",\"crv\":\"P-256\",\"k\":\"c2VjcmV0\"");
		break;
	case VH_K_EC: {
		int w = (k->bits + 7) / 8;
		tb_adds(&t, "\"EC\",\"crv\":\""); tb_adds(&t, k->crv); tb_adds(&t, "\"");
		add_bn(&t, "x", k->pkey, OSSL_PKEY_PARAM_EC_PUB_X, w, pad);
		add_bn(&t, "y", k->pkey, OSSL_PKEY_PARAM_EC_PUB_Y, w, pad);
		if (priv) add_bn(&t, "d", k->pkey, OSSL_PKEY_PARAM_PRIV_KEY, w, pad);
		if (extras & 1) tb_adds(&t, ",\"n\":\"AQAB\",\"e\":\"AQAB\",\"k\":\"c2VjcmV0\",\"p\":\"AA\"");
		break;
	}
	case VH_K_OKP: {
		unsigned char buf[64]; size_t n = sizeof(buf);
		tb_adds(&t, "\"OKP\",\"crv\":\""); tb_adds(&t, k->crv); tb_adds(&t, "\"");
		EVP_PKEY_get_raw_public_key(k->pkey, buf, &n); add_b64(&t, "x", buf, n, 0);
		if (priv) { n = sizeof(buf); EVP_PKEY_get_raw_private_key(k->pkey, buf, &n); add_b64(&t, "d", buf, n, 0); }
		if (extras & 1) tb_adds(&t, ",\"y\":\"AAAA\",\"n\":\"AQAB\",\"k\":\"c2VjcmV0\"");
		break;
	}
	}
	tb_adds(&t, meta.p);
	if (extras & 2) tb_adds(&t, ",\"x5c\":[\"MIIB\"],\"x5t\":\"abc\",\"ext\":true,\"unknown\":{\"nested\":[1,2,{\"kty\":\"RSA\"}]},\"oth\":[]");
	tb_adds(&t, "}");
	free(meta.p);
	return t.p;
}

static int bn_param_eq(EVP_PKEY *a, EVP_PKEY *b, const char *param)
{
	BIGNUM *x = NULL, *y = NULL;
	int r;
	if (!EVP_PKEY_get_bn_param(a, param, &x) || !EVP_PKEY_get_bn_param(b, param, &y)) { BN_free(x); BN_free(y); return 0; }
	r = BN_cmp(x, y) == 0;
	BN_free(x); BN_free(y);
	return r;
}

#define MISMATCH(name) do { if (nmis < 16) mis[nmis++] = (name); } while (0)

static unsigned long n_okp_lz;
static unsigned long n_oct_special, n_after_poison, n_recycled;
int main(int argc, char **argv)
{
	vh_args_t a;
	static const char *SPECS_Q[] = { "rsa:2048", "rsa:2047", "rsa:2041", "rsa:3072", "ec:P-256", "ec:P-384", "ec:P-521", "ec:secp256k1", "okp:Ed25519", "okp:Ed448", "oct", "ec:sect571r1", "ec:brainpoolP512r1" };
	static const char *SPECS_T[] = { "rsa:2048", "rsa:2047", "rsa:2041", "rsa:2049", "rsa:2050", "rsa:1024", "rsa:3072", "rsa:4096", "ec:P-256", "ec:P-384", "ec:P-521", "ec:secp256k1", "okp:Ed25519", "okp:Ed448", "oct", "oct", "ec:sect571r1", "ec:sect571k1", "ec:brainpoolP512r1", "ec:sect409r1", "ec:secp224r1" };
	unsigned long nchecked = 0;
	vh_parse_args(argc, argv, &a);
	for (long idx = 0; idx < a.n; idx++) {
		const char **specs = a.thorough ? SPECS_T : SPECS_Q;
		size_t nspec = a.thorough ? sizeof(SPECS_T) / sizeof(*SPECS_T) : sizeof(SPECS_Q) / sizeof(*SPECS_Q);
		const char *spec;
		char specbuf[32];
		vh_key_t k;
		const char *mis[16];
		int nmis = 0, keyreuse;
		if (!vh_mine(&a, idx)) continue;
		vh_rng_seed(&rng, a.seed, 8000000 + (uint64_t)idx);
		spec = specs[(size_t)idx / (size_t)a.nshards % nspec];
		if (!strcmp(spec, "oct")) { snprintf(specbuf, sizeof(specbuf), "oct:%d", 1 + (int)vh_below(&rng, 512)); spec = specbuf; }
		if (vh_key_gen(&k, spec, &rng)) vh_harness_fail("keygen %s", spec);
		if (k.kind == VH_K_OCT && (idx & 2)) {
			/* every second oct key: a first and/or last octet that text handling might strip or stop at (NUL, line ends, blank, '=', quote...) */
			static const unsigned char SP[] = { 0x00, 0x0a, 0x0d, 0x20, 0x3d, 0x2e, 0xff, 0x5c, 0x22, 0x7f, 0x80, 0x09 };
			k.oct[k.octlen - 1] = SP[vh_below(&rng, sizeof(SP))];
			if (vh_below(&rng, 3) == 0) k.oct[0] = SP[vh_below(&rng, sizeof(SP))];
			n_oct_special++;
		}
		if (k.kind == VH_K_OKP && (idx & 1)) {
			/* every second OKP key: one whose raw private or public octet string starts with 0x00 (octet strings, not integers) */
			for (int tries = 0; tries < 5000; tries++) {
				unsigned char raw[64]; size_t rl = sizeof(raw);
				int z = EVP_PKEY_get_raw_private_key(k.pkey, raw, &rl) == 1 && rl && raw[0] == 0;
				rl = sizeof(raw);
				z |= EVP_PKEY_get_raw_public_key(k.pkey, raw, &rl) == 1 && rl && raw[0] == 0;
				if (z) { n_okp_lz++; break; }
				vh_key_free(&k);
				if (vh_key_gen(&k, spec, &rng)) vh_harness_fail("keygen %s", spec);
			}
		}
		/* several JWK variants per generated key (RSA keygen is the expensive part) */
		keyreuse = k.kind == VH_K_RSA ? 12 : 4;
		for (int var = 0; var < keyreuse; var++) {
			int priv = k.kind == VH_K_OCT ? 1 : (int)vh_below(&rng, 2);
			int pad = (k.kind == VH_K_RSA || k.kind == VH_K_EC) ? (int)vh_below(&rng, 4) : 0;
			int extras = (int)vh_below(&rng, 4);
			meta_t m;
			char *jwk = make_jwk(&k, priv, pad, &m, extras);
			jwk_set_t *set;
			const jwk_item_t *it;
			nmis = 0;
			vh_case_begin(idx, "\"key\":\"%s\",\"var\":%d,\"priv\":%d,\"pad\":%d", spec, var, priv, pad);
			vh_set_prov((int)vh_below(&rng, 2));
			/* a third of the imports: the key is the second element of a set whose first element is a well-formed JWK that the crypto
			 * library refuses (off-curve point, unknown curve, garbage modulus, short OKP octet string): what that leaves behind in
			 * the provider (error queue, context) must not reach the key that follows */
			{
				static const char *POISON[] = {
					"{\"kty\":\"EC\",\"crv\":\"P-256\",\"x\":\"AQIDBAUGBwgJCgsMDQ4PEBESExQVFhcYGRobHB0eHyA\",\"y\":\"ICEiIyQlJicoKSorLC0uLzAxMjM0NTY3ODk6Ozw9Pj8\"}",
					"{\"kty\":\"EC\",\"crv\":\"P-999\",\"x\":\"AQID\",\"y\":\"BAUG\"}",
					"{\"kty\":\"RSA\",\"n\":\"AAAA\",\"e\":\"AQAB\"}",
					"{\"kty\":\"OKP\",\"crv\":\"Ed25519\",\"x\":\"AQID\"}",
					"{\"kty\":\"EC\",\"crv\":\"P-384\",\"x\":\"AA\",\"y\":\"AA\",\"d\":\"AA\"}",
					"{\"kty\":\"RSA\",\"n\":\"AQAB\",\"e\":\"AQAB\",\"d\":\"AQAB\",\"p\":\"Aw\",\"q\":\"BQ\",\"dp\":\"AQ\",\"dq\":\"AQ\",\"qi\":\"AQ\"}" };
				int second = (var % 3) == 2;
				if (second) {
					size_t cap = strlen(jwk) + 600;
					char *doc = malloc(cap);
					snprintf(doc, cap, "{\"keys\":[%s,%s]}", POISON[(idx + var) % 6], jwk);
					set = jwks_create(doc);
					free(doc);
					it = set && jwks_item_count(set) == 2 ? jwks_item_get(set, 1) : NULL;
					n_after_poison++;
				} else if ((var % 3) == 1) {
					/* another third: a keyring that is being refreshed.  A key rich in metadata (use, key_ops, alg, kid, curve) is loaded
					 * and dropped first, then the key under test is loaded into the same set: nothing of the dropped key may show on it */
					static const char *DECOY[] = {
						"{\"kty\":\"EC\",\"crv\":\"P-256\",\"x\":\"MKBCTNIcKUSDii11ySs3526iDZ8AiTo7Tu6KPAqv7D4\",\"y\":\"4Etl6SRW2YiLUrN5vfvVHuhp7x8PxltmWWlbbM4IFyM\","
						"\"use\":\"enc\",\"key_ops\":[\"deriveKey\",\"deriveBits\"],\"alg\":\"ES256\",\"kid\":\"dropped-key\"}",
						"{\"kty\":\"oct\",\"k\":\"AAECAwQFBgcICQoLDA0ODxAREhMUFRYXGBkaGxwdHh8gISIjJCUmJygpKissLS4vMDEyMzQ1Njc4OTo7PD0-Pw\","
						"\"use\":\"sig\",\"key_ops\":[\"sign\",\"verify\"],\"alg\":\"HS512\",\"kid\":\"dropped-oct\"}" };
					set = jwks_create(DECOY[(idx + var / 3) % 2]);
					if (!set || jwks_item_count(set) != 1 || jwks_item_error(jwks_item_get(set, 0))) vh_harness_fail("decoy key not imported");
					if (!jwks_item_free(set, 0) || jwks_item_count(set) != 0) vh_harness_fail("decoy key not dropped");
					jwks_load(set, jwk);
					it = jwks_item_count(set) == 1 ? jwks_item_get(set, 0) : NULL;
					n_recycled++;
				} else {
					set = jwks_create(jwk);
					it = set && jwks_item_count(set) == 1 ? jwks_item_get(set, 0) : NULL;
				}
			}
			nchecked++;
			if (!it) MISMATCH("no-item");
			else if (jwks_item_error(it)) MISMATCH("import-error");
			else {
				int want_kty = k.kind == VH_K_OCT ? JWK_KEY_TYPE_OCT : k.kind == VH_K_EC ? JWK_KEY_TYPE_EC : k.kind == VH_K_OKP ? JWK_KEY_TYPE_OKP : JWK_KEY_TYPE_RSA;
				int want_bits = k.kind == VH_K_OCT ? (int)k.octlen * 8 : k.kind == VH_K_OKP ? (!strcmp(k.crv, "Ed448") ? 456 : 256) : k.bits;
				const char *curve = jwks_item_curve(it), *kid = jwks_item_kid(it);
				if ((int)jwks_item_kty(it) != want_kty) MISMATCH("kty");
				if (jwks_item_key_bits(it) != want_bits) MISMATCH("bits");
				if (jwks_item_is_private(it) != priv) MISMATCH("is_private");
				if ((int)jwks_item_alg(it) != (m.alg < 0 ? 0 : m.alg)) MISMATCH("alg");
				if ((kid == NULL) != (m.kid == NULL) || (kid && strcmp(kid, m.kid))) MISMATCH("kid");
				if ((int)jwks_item_use(it) != m.use) MISMATCH("use");
				if ((int)jwks_item_key_ops(it) != m.key_ops) MISMATCH("key_ops");
				if (k.kind == VH_K_EC || k.kind == VH_K_OKP) { if (!curve || strcmp(curve, k.crv)) MISMATCH("curve"); }
				else if (curve) MISMATCH("curve-on-non-curve-key");
				if (k.kind == VH_K_OCT) {
					const unsigned char *b; size_t bl;
					if (jwks_item_key_oct(it, &b, &bl) || bl != k.octlen || memcmp(b, k.oct, bl)) MISMATCH("oct-bytes");
					if (jwks_item_pem(it)) MISMATCH("pem-on-oct");
				} else {
					const char *pem = jwks_item_pem(it);
					EVP_PKEY *got = NULL;
					if (!pem) MISMATCH("pem-missing");
					else {
						BIO *bio = BIO_new_mem_buf(pem, -1);
						got = priv ? PEM_read_bio_PrivateKey(bio, NULL, NULL, NULL) : PEM_read_bio_PUBKEY(bio, NULL, NULL, NULL);
						BIO_free(bio);
						if (!got) MISMATCH("pem-unparsable");
						if (priv && strstr(pem, "PUBLIC KEY")) MISMATCH("pem-public-for-private-jwk");
						if (!priv && strstr(pem, "PRIVATE KEY")) MISMATCH("pem-private-for-public-jwk");
					}
					if (got) {
						if (k.kind == VH_K_RSA) {
							if (!bn_param_eq(k.pkey, got, OSSL_PKEY_PARAM_RSA_N)) MISMATCH("rsa-n");
							if (!bn_param_eq(k.pkey, got, OSSL_PKEY_PARAM_RSA_E)) MISMATCH("rsa-e");
							if (priv) {
								if (!bn_param_eq(k.pkey, got, OSSL_PKEY_PARAM_RSA_D)) MISMATCH("rsa-d");
								if (!bn_param_eq(k.pkey, got, OSSL_PKEY_PARAM_RSA_FACTOR1)) MISMATCH("rsa-p");
								if (!bn_param_eq(k.pkey, got, OSSL_PKEY_PARAM_RSA_FACTOR2)) MISMATCH("rsa-q");
								if (!bn_param_eq(k.pkey, got, OSSL_PKEY_PARAM_RSA_EXPONENT1)) MISMATCH("rsa-dp");
								if (!bn_param_eq(k.pkey, got, OSSL_PKEY_PARAM_RSA_EXPONENT2)) MISMATCH("rsa-dq");
								if (!bn_param_eq(k.pkey, got, OSSL_PKEY_PARAM_RSA_COEFFICIENT1)) MISMATCH("rsa-qi");
							}
							/* RSA vs RSA-PSS key type follows the alg attribute; both are RSA keys */
						} else if (k.kind == VH_K_EC) {
							char g1[64] = "", g2[64] = "";
							size_t l;
							EVP_PKEY_get_utf8_string_param(k.pkey, OSSL_PKEY_PARAM_GROUP_NAME, g1, sizeof(g1), &l);
							EVP_PKEY_get_utf8_string_param(got, OSSL_PKEY_PARAM_GROUP_NAME, g2, sizeof(g2), &l);
							if (strcmp(g1, g2)) MISMATCH("ec-group");
							if (!bn_param_eq(k.pkey, got, OSSL_PKEY_PARAM_EC_PUB_X)) MISMATCH("ec-x");
							if (!bn_param_eq(k.pkey, got, OSSL_PKEY_PARAM_EC_PUB_Y)) MISMATCH("ec-y");
							if (priv && !bn_param_eq(k.pkey, got, OSSL_PKEY_PARAM_PRIV_KEY)) MISMATCH("ec-d");
						} else {
							unsigned char b1[64], b2[64]; size_t l1 = 64, l2 = 64;
							if (EVP_PKEY_get_id(k.pkey) != EVP_PKEY_get_id(got)) MISMATCH("okp-type");
							if (!EVP_PKEY_get_raw_public_key(k.pkey, b1, &l1) || !EVP_PKEY_get_raw_public_key(got, b2, &l2) || l1 != l2 || memcmp(b1, b2, l1)) MISMATCH("okp-x");
							if (priv) { l1 = l2 = 64; if (!EVP_PKEY_get_raw_private_key(k.pkey, b1, &l1) || !EVP_PKEY_get_raw_private_key(got, b2, &l2) || l1 != l2 || memcmp(b1, b2, l1)) MISMATCH("okp-d"); }
						}
						EVP_PKEY_free(got);
					}
				}
			}
			printf("[\"I\",%ld,\"%s\",%d,%d,%d,%d,[", idx, spec, priv, pad, extras, nmis == 0);
			for (int i = 0; i < nmis; i++) printf("%s\"%s\"", i ? "," : "", mis[i]);
			printf("],%d,%d,%d,%d", m.alg, m.kid != NULL, m.use, m.key_ops);
			if (nmis || a.only >= 0) { printf(","); vh_put_jstr(stdout, jwk); if (it) { printf(","); vh_put_jstr(stdout, jwks_item_error_msg(it)); } }
			printf("]\n");
			if (set) jwks_free(set);
			free(jwk);
		}
		vh_key_free(&k);
	}
	printf("[\"STATS\",%lu]\n", nchecked);
	printf("[\"OKPLZ\",%lu]\n", n_okp_lz);
	printf("[\"EXTRA\",%lu,%lu,%lu]\n", n_oct_special, n_after_poison, n_recycled);
	return 0;
}

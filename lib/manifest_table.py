# Table of claimed checks; exec'd by bin/mkmanifest.
chk("C11", "exploration", "exhaustive enumeration + online reference-codec oracle under ASan/UBSan",
    "Every byte string of length 0-3 (thorough: all 2^24; quick: lengths 0-2 complete + 2e6 of length 3), every 4-character "
    "group over a 70-symbol alphabet (complete) and over all bytes (thorough: all 2^32; quick: 3e7), every string up to length "
    "6/8 over a 10-class alphabet, every encoder input length 0-3072 and random strings to 64 KiB (encoder inputs are exact-size unterminated heap blocks) are pushed through the real encoder/decoder of the rebuilt "
    "library and judged by an independent arithmetic codec; buffer arithmetic is watched by ASan/UBSan.",
    "Trusted: the reference codec in drivers/vh.c (cross-checked against Python's base64 in every run), gcc sanitizers. "
    "Text with interior '=' and non-canonical trailing bits is unjudged (statement silent).",
    "DESIGN.md 3/C11")
chk("C02", "exploration", "exhaustive configuration-matrix enumeration + table-model monitor + primitive hook, under ASan/UBSan",
    "The finite matrix provider x route (setkey / four callback variants / three setkey histories: refused call after an admitted one, admitted after admitted / a preset key replaced by the callback / a callback whose alg changes between two uses of one object) x configured alg (16) x key (absent + every family) x key alg "
    "attribute (absent, every name, unknown) x public/private x header alg variant (64, incl. unregistered names that follow the pattern of the registered ones (HS128, RS640, ES512K), names with an escaped NUL and spellings a lenient parser would take for a real name: 'RS 256', 'RS+256', 'RS0256', ' HS256') x signature kind (empty, garbage, valid, "
    "HMAC under empty / public-PEM / zero keys) is enumerated (thorough: completely; quick: reduced axes), each setkey/verify/"
    "generate call is logged at the API boundary and judged offline by a 40-line table model; the LIBJWT_VERIF hook shows which "
    "alg/key actually reached each crypto primitive.",
    "Trusted: OpenSSL EVP as reference signer/verifier, the table model in monitors/policy_model.py. INVAL-involving setkey "
    "returns are unjudged. Providers not compiled (MbedTLS) are not covered.", "DESIGN.md 3/C02")
chk("C03", "exploration", "exhaustive configuration x token-shape enumeration + predicate monitor under ASan/UBSan",
    "Every checker/builder configuration (10 routes incl. setkey and callback histories x explicit alg x key x key alg attribute x public/private) is crossed with "
    "every token shape (64 header-alg variants x 7 third-segment shapes); the monitor asserts the four clauses of the statement "
    "on each logged call and requires positive controls (alg-none accepted key-less, signed tokens accepted/produced).",
    "Trusted: harness token builder/decoder. A callback that withdraws a key is unjudged.", "DESIGN.md 3/C03")
chk("C09", "exploration", "exhaustive key-size x algorithm enumeration + floor monitor + primitive hook under ASan/UBSan",
    "Routes: setkey, callback, and a callback that supplies the same key with its natural alg once and then with the cell's alg. oct keys of every length 0-160 bytes (quick: 15 boundary lengths), RSA moduli 512-4096 incl. 2047/2048/2049 (quick: 1024, "
    "2047, 2048), all four EC curves against all ES algs, Ed25519/Ed448/X25519, each for generate and for verify of a token the "
    "harness signed with that very key, via explicit alg and via key alg, by setkey and by callback, on both providers; the "
    "monitor asserts both directions (below floor never succeeds; at/above floor works).",
    "Trusted: OpenSSL keygen/sign as reference. secp256k1 on GnuTLS is excluded from the 'works' clause (provider lacks it).",
    "DESIGN.md 3/C09")
chk("C01", "exploration", "systematic token mutation + independent reference verifier (OpenSSL EVP direct) under ASan/UBSan",
    "For every provider x key type/size x admissible alg x base token (signed by the harness' own signer and by libjwt) x pin "
    "route, 23 mutation classes are applied (every character of header/payload, every single bit of HMAC/ECDSA/EdDSA signatures, "
    "sampled bits of RSA signatures, truncation/extension, padding, transplants from other payload/key/key type, sibling "
    "algorithms, ECDSA corner values and re-encodings, constant signatures, extra segments, control bytes, HMAC under "
    "attacker-computable keys; extensions by 63..65537 characters/bytes around powers of two); every mutant is verified under both "
    "providers; key-rotation histories (verify, free the keyring, load another key at the same address, verify again) run on the "
    "ASan and on a plain build; ECDSA signatures whose r makes the verification point the point at infinity (the primitive reports an error, not a verdict); and verify/generate are repeated with the crypto library's own k-th allocation failing for every k (OpenSSL CRYPTO_set_mem_functions, gnutls_malloc pointers; ~1e4 injected faults in the quick tier); the monitor asserts accepted => reference-valid and requires every unmutated token to verify, "
    "also after all mutants of its case.",
    "Trusted: OpenSSL primitives called directly; lenient reference decoding makes the check one-directional. Forgeries that need "
    "to break the primitive are out of reach. One open known finding (Ed448 last byte on GnuTLS, root cause in nettle).",
    "DESIGN.md 3/C01")
chk("C04", "exploration", "history replay against a reference claim model with a harness-controlled clock, under ASan/UBSan",
    "Every configuration call and every verify of generated histories is logged at the API boundary and replayed through a "
    "30-line Python model of the statement: complete cross product of 7 clock values x 8 leeways x boundary neighbours / "
    "INT64 extremes / 12 non-integer JSON types for exp and nbf, all expected/actual string pairs for iss/sub/aud, then 2e4 "
    "(quick) / 1e6 (thorough) random histories of claim_set/claim_del/time_leeway (incl. sets refused for a non-UTF-8 expectation) interleaved with verifies, on unsigned and "
    "HS256-signed tokens.",
    "Trusted: Python json as reference reader; the harness' time() replaces the libc clock for the statically linked library. "
    "Integers beyond int64 and escaped NULs are unjudged (jansson refuses them).", "DESIGN.md 3/C04")
chk("C06", "exploration", "sanitizers (gcc ASan+UBSan+LSan; clang libFuzzer+ASan+UBSan) over generated and coverage-guided tokens + conservative well-formedness classifier",
    "3e4 (quick) / 5e5 (thorough) grammar-derived near-valid tokens from 21 generator classes (incl. right-length signatures with zero / all-ones halves) plus 4e5 / 2e7 coverage-guided "
    "libFuzzer executions (dictionary of alg names and JSON punctuation, inputs to 64 KiB) are each verified by 22 checkers "
    "(both providers x no key/HS256/RS256/PS256/ES256/ES384/ES512/ES256K/Ed25519/Ed448 and ES256 on a curve GnuTLS cannot import, all with a reading callback) under sanitizers; every accepted token and "
    "the whole fuzz corpus are then judged offline by a conservative classifier (accepted => not definitely malformed). Leaks "
    "are checked by LeakSanitizer at process exit and per input by libFuzzer. Valid and invalid tokens of 12 key/alg pairs are also verified while the crypto library's own k-th allocation fails (every k, both providers), under ASan/LSan.",
    "Trusted: sanitizers see libjwt code only (jansson/OpenSSL/GnuTLS uninstrumented); red-zone tools miss intra-object "
    "overflows. clang's -fsanitize=null is disabled in the fuzz flavour (false alarm on ll.h's container_of idiom, which gcc's "
    "UBSan does not flag). NUL-prefix and over-deep JSON are ambiguous and unjudged.", "DESIGN.md 3/C06")
chk("C07", "exploration", "sanitizers (gcc ASan+UBSan+LSan, clang libFuzzer) over a single/double-fault JWK matrix + Python json reference monitor",
    "The exhaustive single-fault matrix (every key template x 17 members x 18 substitutes incl. printf directives), sampled fault pairs (3e3 / 1.5e5), "
    "key sets mixing good and bad elements (up to 1100 / 4100 elements), base64url members with padding and blanks, 'keys' of every JSON type, non-JSON text, byte-mutated/truncated JWKs and random "
    "bytes are loaded through 15 jwks_load*/jwks_create* entry points (string, length-limited, explicit zero length, file, FILE*, unreadable path, directory, FILE* positioned mid-file and at EOF; documents of exactly 2^k and 2^k+-1 bytes) under sanitizers; every key type is also imported while OpenSSL's own k-th allocation fails (memory safety judged, item shape counted); every outcome (set error, item "
    "count, per-item kid/error/message/kty/material) is logged and compared with what Python's json says the document is. "
    "libFuzzer (JWK dictionary, 1.5e5 / 5e6 executions) adds coverage-guided inputs.",
    "Trusted: Python json as reference reader with the ambiguity list of DESIGN 2.6; sanitizers see libjwt code only.",
    "DESIGN.md 3/C07")
chk("C15", "exploration", "bounded-exhaustive operation sequences + type-strict dict model over logged snapshots, under ASan/UBSan/LSan",
    "All sequences up to length 3 (quick) / 4 (thorough) over a 39-operation alphabet and 2e4 / 5e5 random sequences to length 40 "
    "with boundary values (empty member names through merges, reals/null/booleans inserted as JSON, pretty JSON gets, BOOL values other than 0/1) are executed on builder headers, builder claims and on the jwt_t handed to builder and checker "
    "callbacks; every operation's return code, value.error, returned value and a dump of the whole object are compared with a "
    "Python dict model of the statement; the builder's own maps are dumped before and after a generate whose callback edits the "
    "token and must be identical.",
    "Trusted: Python json for reading the dumps; unjudged operations (statement silent) are only required not to change the "
    "object.", "DESIGN.md 3/C15")
chk("C16", "exploration", "bounded-exhaustive operation sequences + Python list model over logged state dumps, under ASan/UBSan/LSan",
    "All sequences up to length 4 (quick) / 5 (thorough) over 14 keyring operations, 1.5e3 / 4e4 random sequences up to "
    "length 200 and 16 / 160 long-keyring histories (300-key documents, up to ~3000 items); after every step the complete observable state (count, each item's unique id/kid/error by index, "
    "find_bykid results, error_any, set error; get/free with indexes that alias a valid one when narrowed: 2^32+k, 65536+k, 256, SIZE_MAX; bad items with and without imported key material) is dumped and compared with an ordered-list model; AddressSanitizer catches "
    "use of freed items, LeakSanitizer leaks at exit.",
    "Trusted: unique ids carried in key bytes/kids identify items; sanitizers see libjwt code only.", "DESIGN.md 3/C16")
chk("C10", "exploration", "history replay against a Python builder model (own base64/JSON/HMAC decoding) with a harness clock, under ASan/UBSan",
    "1.2e4 (quick) / 4e5 (thorough) random histories of header/claim set/del, enable_iat, time_offset, setkey, setcb "
    "(callback scripts editing the per-token jwt_t, failing, or selecting a public key) interleaved with generate at controlled "
    "clock values (a third of the generates on a clock that advances with every reading; user header strings include every alg name and near-names) on both providers; each returned token is decoded by Python (canonical unpadded base64url, JSON objects), "
    "header and payload are compared type-strictly with the model, builder snapshots before/after generate must be equal and "
    "equal to the model, signatures are re-verified (OpenSSL reference, Python hmac).",
    "Trusted: Python base64/json/hmac; OpenSSL reference verifier in the driver.", "DESIGN.md 3/C10")
chk("C13", "exploration", "differential monitoring: reused object vs fresh identically configured twin at the same clock, under ASan/UBSan",
    "Every ordered pair of a 42-member token pool (one member per failure layer, valid tokens, string claims that are present but not strings) x 6 checker configurations x "
    "with/without error_clear x provider, every ordered pair of 8 builder actions (incl. reconfiguration between generates) x 5 builder configurations with and without callback, and 6e3 / 3e5 "
    "random histories up to length 20; each step's return value, error flag, message (after clear) and token (bytes for "
    "deterministic algs; header+payload and reference verification for ES256/PS256) are compared with a fresh twin's and, for "
    "verify, with the pristine verdict of the same (provider, configuration, token) taken at process start before any failing "
    "verification (catches process-wide hidden state a fresh twin shares).",
    "Oracles: fresh twin + pristine verdict (defects present from the first call on are other properties' business).", "DESIGN.md 3/C13")
chk("C14", "exploration", "contract monitor over five logged workloads (histories, policy matrix, JWK fault matrix, typed-map sequences, malformed-token generator) under ASan/UBSan",
    "The error contract (non-zero/NULL <=> flag set and message non-empty; success => flag clear and message empty; bad item "
    "=> message; return code == value.error) is asserted on every call of the reused/fresh history driver, the policy matrix, "
    "the JWK fault matrix, the typed-map sequences and the malformed-token generator of C06 (4.4e5 verifies quick; unknown alg names of 17 lengths up to 5000 characters). The evidence lists which jwt_write_error messages "
    "of the source were observed and which were not, so unreached failure causes are visible.",
    "Allocation-failure causes are C17's. Causes not in the four workloads are listed as unobserved messages.", "DESIGN.md 3/C14")
chk("C12", "exploration", "dual-provider differential monitoring of the mutation workload + selector/environment/portability probes, under ASan/UBSan",
    "Every token of the C01 mutation workload (23 classes x every key/alg incl. HMAC keys of 65-200 bytes, past the hash block sizes x three signers: harness, libjwt/OpenSSL, libjwt/GnuTLS) "
    "is verified under both providers in the same process and the verdict pair is judged (agreement on RFC-signed and on invalid "
    "tokens, each provider accepts the other's signatures, byte-identical tokens for HS*/RS*/EdDSA); jwt_set_crypto_ops(_t) is "
    "called with 22 names and 50 ids of every residue and width (-2..11, 16+k, 255..258, 65537, 2^24+1, 919193, INT_MIN/MAX+-k) from both starting providers; 13 JWT_CRYPTO values are observed in child processes; "
    "7 key types are loaded under one provider and used and freed under the other (4 combinations each), and builders/checkers/keyrings are used under alternating providers within one history (ABABAB, AABBAA).",
    "Excluded middle (valid but non-canonical tokens) is counted, not judged. secp256k1 is outside the common matrix. Two open "
    "known findings (Ed448 last byte on GnuTLS).", "DESIGN.md 3/C12")
chk("C05", "exploration", "generate->verify round trips over random JSON trees and fresh keys, all provider pairs, Python JSON-equality monitor + reference verifier, under ASan/UBSan",
    "2.4e4 (quick) / 6e5 (thorough) round trips: fresh keys of every type and size x every admissible alg x all four (signing, "
    "verifying) provider pairs x random header/claim JSON trees (incl. empty and 400-character member names, registered names such as aud/iss/jti/kid/crit with list and object values) set through whole-object merge or typed setters at random clock "
    "values. Every token must verify under the checker and under the OpenSSL reference, and the header/claims dumped by the "
    "checker callback must be JSON-equal (type-strict) to the harness' inputs plus alg/typ/iat. The run counts ECDSA signatures "
    "with a leading zero byte in r or s and is inconclusive below a minimum.",
    "Trusted: Python json, OpenSSL reference verifier. secp256k1 with GnuTLS is outside the support matrix.", "DESIGN.md 3/C05")
chk("C08", "exploration", "online component-wise oracle (OpenSSL direct) over harness-written JWKs of fresh keys, under ASan/UBSan/LSan",
    "4.5e3 (quick) / 7e4 (thorough) JWK texts written by the harness from keys it generated (all types and sizes, private and "
    "public forms, optional alg/kid/use/key_ops in all combinations, minimal and zero-padded integers, foreign/unknown extra "
    "members) are imported; the item's PEM is re-parsed with OpenSSL and n,e,d,p,q,dp,dq,qi / group,x,y,d / raw OKP keys / oct "
    "bytes are compared with the original, as are kty, bits, curve, is_private, alg, kid, use and key_ops.",
    "Trusted: OpenSSL key accessors on the harness' own key object.", "DESIGN.md 3/C08")
chk("C19", "exploration", "exhaustive callback-program enumeration + differential against the callback-free twin, under ASan/UBSan",
    "Every callback program up to length 2 (quick: 601 programs) / 3 (thorough: 14425) over 24 operations on the handed jwt_t (18 edits and 6 read-only programs: typed gets with right and wrong types, absent names, JSON gets, jwt_get_alg) is run "
    "against 32 claim policies x 17 tokens (each passing or failing exactly one check or the signature; HS256, ES256, unsigned) "
    "x 2 providers at a fixed clock and the verdict compared with the same checker without callback; every 7th program also "
    "returns one of 16 non-zero values (1, -1, 255, +-256, 512, +-65536, 2^24, INT_MIN, INT_MAX, ...) and must fail; 2.6e5 policy-matrix cells where the callback selects key+alg, the key only or the alg "
    "only are compared with the same effective pair configured through setkey.",
    "The callback-free twin and the setkey route are the oracles.", "DESIGN.md 3/C19")
chk("C17", "fault_enumeration", "exhaustive single-allocation-failure injection through jwt_set_alloc + differential against the fault-free run, under ASan/UBSan",
    "For each of 167 scenarios (load each of 9 keys - oct 48/64, RSA 2048/3072, P-256/384/521, Ed25519, Ed448 - alone, public, in a set with a bad element, by strn, from a file and a FILE*; "
    "builder and checker configuration with every value type and getters; generate for none/HS256/HS512/RS256/PS256/PS384/ES256/ES384/ES512/EdDSA "
    "plain and with claims, offsets and a claim-setting callback; verify of a valid token and of bad-signature/expired/wrong-iss/"
    "none-with-key tokens; both providers) the number n of allocations is measured and every k in 1..n is failed, one at a time "
    "(1.1e4 injections, all executed, in both tiers). Outcome must be 'same result' or 'reported failure'; crashes are caught by ASan; "
    "violation keys carry the symbolised call chain of the failing allocation.",
    "Only allocations routed through jwt_set_alloc (libjwt + jansson) fail; single faults; leaks under OOM not judged. Five open "
    "known findings are jansson-internal (jansson 2.14 ignores allocation failures in its parser, dumper and update_missing).",
    "DESIGN.md 3/C17")
chk("C18", "exploration", "ThreadSanitizer stress with injected scheduling delays + differential against a sequential pre-pass (also run under ASan)",
    "8 threads x 300 ops x 3 repeats x 2 providers (quick) / 16 x 1200 x 8 x 2 (thorough) on the TSan build: own builders and "
    "checkers per thread, one shared keyring with 9 keys, randomised start skew, and an allocator (jwt_set_alloc) that "
    "yields/sleeps at random inside library calls. Every result is compared with the sequential pre-pass (token bytes for "
    "HS*/RS*/EdDSA, header+payload and reference verification otherwise). TSan reports with libjwt frames are violations. "
    "Cold starts: 32 / 160 fresh processes (TSan and plain builds) whose 18 threads make the very first sign/verify calls of the process, reference pass afterwards. The evidence states thread-operations, overlapping same-key operation pairs (proof of actual concurrency) and injected yields; "
    "a repeat with too few overlaps makes the run inconclusive.",
    "Schedules are sampled. Races inside uninstrumented libraries are invisible. Helgrind not used (cost, noise).", "DESIGN.md 3/C18")
chk("C20", "exploration", "black-box monitoring of the ASan-built tools (exit status, stdout) + OpenSSL-direct key comparison helper",
    "~2e3 (quick) / ~5e3 (thorough) tool invocations: jwt-verify over token lists of length 1..1024 (and 65536, 65537, 65792 failing tokens on stdin) with 0..n failing tokens at "
    "random positions, as arguments and on stdin (incl. an unterminated last line), tokens up to 64 KiB; jwt-generate -> jwt-verify for every key type with every "
    "documented spelling of the options (cross-checked against each tool's --help) in quiet, default, verbose and --print=cat output modes, the generator's stdout also piped as it is into jwt-verify -; key2jwk -> library import -> jwk2key -> "
    "component-wise comparison for fresh keys of every type, several keys per key2jwk call (JWKS -> one file per key), key files beyond the 8 KiB read buffer (refusal tolerated, another key not); the decoded payload of generated tokens is compared with the documented claim options; (oct keys with trailing NL/CR/NUL/space, leading NL, embedded NUL), EC keys "
    "generated until leading-zero coordinates and scalars occurred (counted in the evidence); RFC 7518 member encodings checked by Python.",
    "Trusted: OpenSSL key accessors in drivers/d_c20.c; --print only with the command cat; Windows paths not exercised; blank lines/CRLF on "
    "stdin unjudged.", "DESIGN.md 3/C20")

# ---- round 10 (sizes and names an implementation plausibly special-cases) ----
more("C01", "oct keys of 129 and 200 octets (longer than every hash block) and, for every oct key, tokens signed by the reference under related keys (prefixes of 16..128 octets, one octet shorter/longer, last octet changed) that must be rejected.")
more("C02", "Keys include a 512-bit EC key (brainpoolP512r1; thorough also brainpoolP256r1/P384r1, secp224r1); half of the key slots carry a kid and the token headers cycle through eight decorations (kid equal/other/empty/non-string, jwk, jku/x5c/x5t, cty) that must not change which key or algorithm judges the token.")
more("C03", "Half of the key slots carry a kid and the token headers cycle through eight decorations (kid equal/other/empty/non-string, embedded jwk, jku/x5c/x5t) that must not make a keyed checker treat the token as unsigned.")
more("C04", "Length relations: expected and actual values that share a prefix and differ in length by 1..131072 characters (multiples of 256 and 65536 and their neighbours), both directions, six base lengths.")
more("C05", "Keys include oct keys of 129 and 300 octets and an 8200-bit RSA key read from data/keys (thorough: 16384 bits), i.e. signatures longer than 1024 octets.")
more("C06", "The first 132 generated cases are fixed: every key's own alg name and 'none' followed by 1..4096 filler characters (multiples of 256 and neighbours), correctly signed; the random classes add the same for all ten alg names.")
more("C08", "key_ops arrays of up to 79 entries: the registered operations in any order among 1..70 other names and repeats, also with all other names first.")
more("C10", "Size sweep: one string claim sized so that the signing input takes every length within +-12 of 64..65536 under three header lengths (unsigned, HS256, ES256); the evidence counts the distinct lengths reached within 2 of each size.")
more("C11", "Dictionary mode: 77 multi-character affixes (URL/HTML/JSON escapes of '=', '+', '/', line ends, quotes, BOM, zero-width space) at the end, start or middle of alphabet text of 33 lengths (0..4097).")
more("C12", "The provider-switch histories also run with a 200-octet oct key and with RSA keys of 8200 and 8448 bits read from data/keys (thorough: 16384 bits).")
more("C13", "The pristine verdict of every (provider, configuration, token) is taken in a child process forked before the driver verified anything (one child per verdict); all keys of the workload carry the same kid; builder action 9 puts one of 46 registered JOSE header parameters / registered claims with values of several JSON types before a generate.")
more("C14", "The history workload includes builder action 9 (one of 46 registered JOSE header parameters / registered claims, e.g. b64, crit, zip, jwk, x5c, jti, cnf, with values of several JSON types) before a generate.")
more("C15", "Size sweep: a string member of N-18..N+2 characters for N in 16..65536 on all six targets, read back whole, by name, as string and pretty, so that the JSON text takes every length around the usual buffer sizes.")
more("C16", "Bulk documents that mix good and flagged keys (33..300 flagged items among up to 900, every 1st/2nd/3rd key flagged) followed by free_bad and the other operations.")
more("C17", "Scenarios with claims/headers whose JSON text exceeds 4 KiB and 16 KiB (generate and verify). jansson's serialiser/parser entry points are wrapped in the driver: a differing result after jansson *reported* the failed allocation is keyed jansson-failure-ignored:<entry point> (libjwt's defect), separate from the known findings where jansson swallows the failure itself.")
more("C18", "The shared keyring holds 12 keys, three of them oct keys under one algorithm of which two are longer than any hash block (129 and 200 octets), plus a 300-octet HS512 key; these are the hot set of the first repeat.")
more("C19", "Tokens include payloads of 4-70 KiB whose checked claims lie beyond the first 4/64 KiB of the serialised claims (and one with the large member last); the callback operations include replacements that keep the serialised length (exp=1000000000, iss=yo).")
more("C20", "Key files include an 8200-bit RSA key from data/keys (thorough: 16384 bits): members longer than 1024 octets through key2jwk, jwk2key, jwt-generate and jwt-verify.")

# ---- round 11 (counts, characters, values, positions, repetitions) ----
more("C02", "Quick keys include secp256k1; 14 more header variants are unregistered names that follow the pattern of the registered ones (HS128, HS0, HS640, RS128, ES512K, none0 ...).")
more("C03", "14 more header variants: unregistered names that follow the pattern of the registered ones (HS128 maps to 'none' in an implementation that computes the enum from the digits).")
more("C04", "Clock values include -1 and -2 (time_t -1 is also time()'s error value, still a reading).")
more("C05", "JSON documents given to the builder rarely carry an escaped U+0000 inside a string; a refused document is not judged, an accepted one must make the round trip.")
more("C06", "196 further fixed cases: family+number names that are not registered (HS128, RS640, ES256k, EdDSA256, A128KW ...), unsigned for the key-less checkers and correctly signed for the keyed ones.")
more("C07", "Documents with repeated kids (within one keys array, and equal to the kid of the item the set already holds): still one item per element, in order.")
more("C08", "A third of the imports put the key second in a set whose first element is a well-formed JWK the crypto library refuses (off-curve point, unknown curve, garbage modulus, short OKP string); every second oct key has a first/last octet that text handling might strip (NUL, LF, CR, blank, '=', quote).")
more("C09", "oct keys whose last octet is a line feed (octnl:32/48/64/33) and whose first and last octets are zero (octz:32/64).")
more("C10", "Clock values include -1, -2 and 2^31-1; JSON claim values include reals that need 17 significant digits, integers beyond 2^53 and exponents.")
more("C11", "Runs of 2..65537 foreign bytes (alone, after alphabet text, and one per line of 64/76 alphabet characters as in MIME-wrapped text; eight foreign characters).")
more("C12", "Provider names: each exact name decorated with one of 40 characters in front, behind or both (quotes, blanks, separators, brackets), with typical prefixes/suffixes (lib, .so, 3, crypto=), with one character doubled or dropped; 27 more JWT_CRYPTO values of the same kinds in child processes.")
more("C13", "A fifth of the random history steps run at an unusual clock reading (-1 in half of them, else -2, 0, 1, 2^31-1, 2^31, 2^32-1, 2^32, year 10000), judged against the fresh twin.")
more("C14", "History steps at unusual clock readings (-1, -2, 0, 2^31 ...) are included.")
more("C15", "The exhaustive alphabet has three more operations (set aud to a one-element array, typed and JSON reads of aud); random sequences use registered claim/header names and one-element arrays.")
more("C16", "The items labelled c carry the kid 'c+d/e'; after every operation look-ups of 'c-d_e', 'c%2Bd%2Fe', 'C+D/E', 'c' and 'c+d/e ' must find nothing.")
more("C17", "Verify scenarios with correctly signed tokens whose exp/nbf are JSON reals (long expired).")
more("C18", "Quick tier: 12 threads (more than a pool of 8).")
more("C19", "A third of the cells verify the same token a second time on the same checker (what the callback did to the first jwt_t must not reach the second verification).")
more("C20", "Library-as-oracle stage: 228 hand-made HS tokens (27 header serialisations incl. white space, member order, escapes, extra members, invalid shapes x 15 payload serialisations, plus broken signatures) get jwt_checker_verify's verdict from a helper; jwt-verify must exit 0 exactly for those, as argument, on stdin and as one list.")

# ---- round 12 (breaks that need two conditions at once) ----
more("C02", "A quarter of the callback cells apply the documented context-only update (setcb with a NULL callback and a context) after registration; a quarter of the builder cells carry an application-set alg header (string or JSON template): the token names the pinned algorithm, for a key-less builder 'none'.")
more("C03", "A quarter of the callback cells apply the context-only setcb update after registration (the callback, and with it the key, must stay); a quarter of the builder cells carry an application-set alg header.")
more("C04", "The time claims come before, after or between the string claims in the payload (member order varies).")
more("C05", "A quarter of the round trips verify on a checker that has just refused something else (a spoiled copy of the token, or text that is no token) without error_clear.")
more("C06", "Unknown alg names made of control characters (JSON escapes of LF, ESC, TAB, DEL ...), alone or after printable text, in the lengths of the other unknown names.")
more("C07", "The provider in force alternates between blocks of documents (loading, inspecting and freeing a keyring is provider-independent; LeakSanitizer sees what a provider-keyed free path leaves behind).")
more("C09", "The matrix runs a second time with every fresh heap block pre-filled with 0x01 (ASan malloc_fill_byte): a size or flag read before it was written looks like a plausible positive number, so a floor decision taken on it shows up as a key below the floor being used.")
more("C12", "Each asymmetric key also verifies through its private JWK carrying key_ops/use members (sign only, verify only, both, empty, encrypt, use=enc): loaded under either provider, used under either.")
more("C13", "The reused checker receives every token in one and the same receive buffer; drivers run under the harness' tracking allocator (foreign frees, writes after free inside the uninstrumented JSON library).")
more("C15", "Before every set-up macro the jwt_value_t holds leftovers of an earlier use (all ones, 0xA5, zeros); the driver runs under the tracking allocator.")
more("C16", "The driver runs under the tracking allocator installed through jwt_set_alloc: every block freed must have come from it (foreign free), and freed blocks are pattern-filled and checked when the next case begins (write after free).")
more("C17", "Freed blocks are filled with 0xDD and kept until the scenario run is over: a changed pattern is a write after free, also when it happens inside the uninstrumented JSON library (~650 000 blocks checked per quick run).")
more("C20", "Alg-option matrix: -a/--algorithm in every spelling x keys with and without an alg of their own x HS256/384/512 tokens; what jwt_checker_setkey(option alg, key) and jwt_checker_verify say (helper) is what the tool's exit status must say.")

# ---- round 13 (slips on error and clean-up paths) ----
more("C03", "The key list includes two keys that do not import (a zero-length oct key, an X25519 OKP key): items in error state, still offered to setkey and to callbacks.")
more("C06", "The generator runs under the harness' tracking allocator (jwt_set_alloc): after every token (accepted or refused by each of the 22 checkers) the number of live blocks taken from it must be what it was before; foreign frees and writes after free are reported as well.")
more("C08", "An eighth of the alg members name a registered JOSE algorithm the library does not implement, or an unregistered string (RSA-OAEP-256, ECDH-ES, dir, Ed25519, ''): kid, use and key_ops still count.")
more("C10", "JSON values include texts the builder refuses (truncated, empty, trailing text), also as replacements of existing members and inside callbacks: a refused set changes nothing.")
more("C13", "The table of tracked blocks stores disguised pointers, so LeakSanitizer still reports what a reused object keeps from the tokens it has seen.")
more("C15", "After a set refused with EXIST the very same request is repeated with the replace flag switched on, without setting the struct up anew (half of such refusals).")
more("C18", "A third of the callback look-ups name a key nobody has (the look-up misses, the callback refuses): a refusal must not write to the shared keyring.")
more("C20", "Every second multi-key round puts one or two entries that do not import between, before or after the good ones: every good key is still written back.")

# ---- round 14 (free choice, aimed at what the harness is least likely to produce) ----
more("C02", "Route 11: a key with an alg attribute is preset by setkey(none, key), then the callback replaces the key only (the preset key's alg does not travel with it).")
more("C03", "Route 11 (preset key with alg, callback replaces the key only) is part of the matrix.")
more("C04", "A quarter of the verifications run on a clock that advances one second per reading (a verification reads the clock once); a quarter of the random histories register a callback that reconfigures its own checker (claim_set/claim_del/time_leeway logged from inside the callback): that call is the most recent one for the token in hand.")
more("C07", "Key templates include non-JOSE curves the crypto library knows (sect571r1, sect571k1, sect409r1, brainpoolP512r1, secp224r1): points wider than P-521's.")
more("C08", "Keys on sect571r1 and brainpoolP512r1 (thorough: also sect571k1, sect409r1, secp224r1).")
more("C13", "Token 44 expires one second after the clock value of the histories and is verified on a clock that advances with every reading.")
more("C14", "A token that is valid for exactly one second is verified on a ticking clock: verdict, flag and message belong to one reading.")
more("C15", "JSON values include reals that need 16-17 significant digits, integers beyond 2^53 and extreme exponents; every read, compact and pretty, gives the stored number back.")
more("C17", "Scenarios that append to a keyring in use (jwks_load / jwks_load_strn into a set whose first key a checker points to): whatever happens to the append, the older key stays the first item and still verifies.")
more("C19", "Two more operations: replacements of exp / iss / alg by strings that are not UTF-8 (refused by the library, still an edit attempt on the handed jwt_t).")
more("C20", "stdin lines of every length within 6 of 8192, 16384, 32768 and 65536 characters, each followed by a failing line, by a good one, and in the middle of a list.")

# ---- round 15 (history-dependent changes: what an earlier call left on the same object) ----
more("C04", "The token a checker accepted last comes back as the very same string: 1 s .. 2^31 s later on the clock, and after the configuration calls the history made in between; each verification is judged by the clock and configuration of its own moment.")
more("C08", "A third of the imports go into a set that is being refreshed: a key rich in metadata (use, key_ops, alg, kid, curve) is loaded and dropped by jwks_item_free before the key under test is loaded into the same set.")
more("C14", "A quarter of the typed reads reuse a jwt_value_t that carries a refused read (another member, not found) without running the set-up macro again: return code and value.error still agree.")
more("C15", "Random sequences include a member that holds a number followed by a set-with-replace of an integer that is a near miss of it (1.0/1, -0.0/0, 1e2/100, neighbours beyond 2^53 and at the int64 ends, true/1, \"7\"/7); a quarter of the reads reuse a jwt_value_t that carries a refused read.")
more("C19", "After every refusing callback the same checker verifies the same token and another token again: each non-zero return fails its own verification.")

/* C19: a verification callback can observe the token but not bend the verdict.
 * Every callback program (sequence of edits on the handed jwt_t, returning 0, config untouched) x claim policy x token x provider
 * is compared with the callback-free twin.  Programs that return non-zero must make verification fail.
 *   ["X", prog_text, policy, token, prov, rc_with_cb, rc_without_cb, ret_of_cb]     (mismatches and a thin sample)
 *   ["STATS", pairs, mismatches, accepted_plain, rejected_plain, nonzero_cb_cases]
 */
#include "vh.h"

#define NOW 1700000000L
#define NOPS 33
static const char *OPNAME[NOPS] = { "claim_del(exp)", "claim_del(nbf)", "claim_del(iss)", "claim_del(sub)", "claim_del(aud)", "claim_del(all)",
	"claim_set!(exp=9999999999)", "claim_set!(nbf=0)", "claim_set!(iss=me)", "claim_set!(sub=s)", "claim_set!(aud=x)",
	"header_del(alg)", "header_del(all)", "header_set!(alg=none)", "header_set!(alg=HS256)", "header_set!(alg=ES256)", "claim_set!(exp='str')", "noop",
	"claim_get(exp as STR)", "claim_get(iss as INT, aud as BOOL)", "header_get(alg as INT, typ as BOOL)", "get(absent names)", "get(JSON whole, pretty)", "get(right types), jwt_get_alg",
	"header_del(crit)", "header_set!(crit=[exp])", "header_del(typ), header_del(kid)", "header_set!(typ=x, kid=k, cty=c)", "header_set!(crit=7, jwk={}, x5c=[])",
	"claim_set!(exp=1000000000)", "claim_set!(iss=yo)",
	"claim_set!(exp=not-UTF-8 string)", "claim_set!(iss=not-UTF-8 string), header_set!(alg=not-UTF-8 string)" };

static void apply_op(jwt_t *jwt, int op)
{
	jwt_value_t v;
	switch (op) {
	case 0: jwt_claim_del(jwt, "exp"); break;
	case 1: jwt_claim_del(jwt, "nbf"); break;
	case 2: jwt_claim_del(jwt, "iss"); break;
	case 3: jwt_claim_del(jwt, "sub"); break;
	case 4: jwt_claim_del(jwt, "aud"); break;
	case 5: jwt_claim_del(jwt, NULL); break;
	case 6: jwt_set_SET_INT(&v, "exp", 9999999999L); v.replace = 1; jwt_claim_set(jwt, &v); break;
	case 7: jwt_set_SET_INT(&v, "nbf", 0); v.replace = 1; jwt_claim_set(jwt, &v); break;
	case 8: jwt_set_SET_STR(&v, "iss", "me"); v.replace = 1; jwt_claim_set(jwt, &v); break;
	case 9: jwt_set_SET_STR(&v, "sub", "s"); v.replace = 1; jwt_claim_set(jwt, &v); break;
	case 10: jwt_set_SET_STR(&v, "aud", "x"); v.replace = 1; jwt_claim_set(jwt, &v); break;
	case 11: jwt_header_del(jwt, "alg"); break;
	case 12: jwt_header_del(jwt, NULL); break;
	case 13: jwt_set_SET_STR(&v, "alg", "none"); v.replace = 1; jwt_header_set(jwt, &v); break;
	case 14: jwt_set_SET_STR(&v, "alg", "HS256"); v.replace = 1; jwt_header_set(jwt, &v); break;
	case 15: jwt_set_SET_STR(&v, "alg", "ES256"); v.replace = 1; jwt_header_set(jwt, &v); break;
	case 16: jwt_set_SET_STR(&v, "exp", "str"); v.replace = 1; jwt_claim_set(jwt, &v); break;
	/* read-only programs: observing must not change anything */
	case 18: jwt_set_GET_STR(&v, "exp"); jwt_claim_get(jwt, &v); jwt_set_GET_STR(&v, "nbf"); jwt_claim_get(jwt, &v); break;
	case 19: jwt_set_GET_INT(&v, "iss"); jwt_claim_get(jwt, &v); jwt_set_GET_BOOL(&v, "aud"); jwt_claim_get(jwt, &v); jwt_set_GET_INT(&v, "sub"); jwt_claim_get(jwt, &v); break;
	case 20: jwt_set_GET_INT(&v, "alg"); jwt_header_get(jwt, &v); jwt_set_GET_BOOL(&v, "typ"); jwt_header_get(jwt, &v); break;
	case 21: jwt_set_GET_STR(&v, "no-such-claim"); jwt_claim_get(jwt, &v); jwt_set_GET_INT(&v, "no-such-header"); jwt_header_get(jwt, &v);
		 jwt_set_GET_JSON(&v, "nope"); jwt_claim_get(jwt, &v); jwt_set_GET_STR(&v, ""); jwt_claim_get(jwt, &v); jwt_set_GET_INT(&v, NULL); jwt_header_get(jwt, &v); break;
	case 22: jwt_set_GET_JSON(&v, NULL); v.pretty = 1; if (jwt_claim_get(jwt, &v) == JWT_VALUE_ERR_NONE) free(v.json_val);
		 jwt_set_GET_JSON(&v, NULL); if (jwt_header_get(jwt, &v) == JWT_VALUE_ERR_NONE) free(v.json_val);
		 jwt_set_GET_JSON(&v, "exp"); if (jwt_claim_get(jwt, &v) == JWT_VALUE_ERR_NONE) free(v.json_val); break;
	case 23: jwt_set_GET_INT(&v, "exp"); jwt_claim_get(jwt, &v); jwt_set_GET_STR(&v, "iss"); jwt_claim_get(jwt, &v); jwt_set_GET_STR(&v, "alg"); jwt_header_get(jwt, &v);
		 (void)jwt_get_alg(jwt); break;
	/* header members other than alg */
	case 24: jwt_header_del(jwt, "crit"); break;
	case 25: jwt_set_SET_JSON(&v, "crit", "[\"exp\"]"); v.replace = 1; jwt_header_set(jwt, &v); break;
	case 26: jwt_header_del(jwt, "typ"); jwt_header_del(jwt, "kid"); break;
	case 27: jwt_set_SET_STR(&v, "typ", "x"); v.replace = 1; jwt_header_set(jwt, &v); jwt_set_SET_STR(&v, "kid", "k"); v.replace = 1; jwt_header_set(jwt, &v);
		 jwt_set_SET_STR(&v, "cty", "c"); v.replace = 1; jwt_header_set(jwt, &v); break;
	case 28: jwt_set_SET_INT(&v, "crit", 7); v.replace = 1; jwt_header_set(jwt, &v); jwt_set_SET_JSON(&v, "jwk", "{}"); v.replace = 1; jwt_header_set(jwt, &v);
		 jwt_set_SET_JSON(&v, "x5c", "[]"); v.replace = 1; jwt_header_set(jwt, &v); break;
	/* edits that keep the length of the serialised claims */
	case 29: jwt_set_SET_INT(&v, "exp", 1000000000L); v.replace = 1; jwt_claim_set(jwt, &v); break;
	case 30: jwt_set_SET_STR(&v, "iss", "yo"); v.replace = 1; jwt_claim_set(jwt, &v); break;
	/* replacements the library refuses (the value is not UTF-8): a refused edit is still an edit attempt on the handed jwt_t */
	case 31: jwt_set_SET_STR(&v, "exp", "\xff\xfe"); v.replace = 1; jwt_claim_set(jwt, &v); break;
	case 32: jwt_set_SET_STR(&v, "iss", "caf\xe9"); v.replace = 1; jwt_claim_set(jwt, &v);
		 jwt_set_SET_STR(&v, "alg", "\xc3"); v.replace = 1; jwt_header_set(jwt, &v); break;
	default: break;
	}
}

typedef struct { int n; int op[4]; int ret; } prog_t;
static prog_t *g_prog;	/* callbacks registered with a NULL context find their program here */
static int prog_cb(jwt_t *jwt, jwt_config_t *cfg)
{
	prog_t *p = cfg->ctx ? cfg->ctx : g_prog;
	for (int i = 0; i < p->n; i++) apply_op(jwt, p->op[i]);
	return p->ret;
}

static vh_key_t KH, KE;
static jwk_set_t *sets[2];
static const jwk_item_t *IH[2], *IE[2];

#define NTOK 29
static char *TOK[NTOK];
static int TOKKIND[NTOK];	/* 0 unsigned, 1 HS256, 2 ES256 */
static const char *TOKNAME[NTOK] = { "hs:pass", "hs:expired", "hs:not-yet-valid", "hs:wrong-iss", "hs:missing-sub", "hs:wrong-aud", "hs:bad-signature",
	"es:pass", "es:expired", "es:bad-signature", "none:pass", "none:expired", "none:not-yet-valid", "none:wrong-iss", "none:missing-sub", "none:wrong-aud",
	"hs:no-time-claims", "hs:pass-with-crit-and-kid", "es:pass-with-crit-and-kid", "hs:wrong-iss-with-crit",
	"hs:empty-payload", "none:empty-payload", "hs:only-unrelated-claim",
	"hs:big-pass", "hs:big-expired", "hs:big-wrong-iss(yo)", "none:70k-expired", "hs:big-expired-filler-last", "hs:4k-boundary-wrong-iss(yo)" };

static void build_tokens(void)
{
	static const char *PL[] = {
		"{\"iss\":\"me\",\"sub\":\"s\",\"aud\":\"x\",\"exp\":1700000100,\"nbf\":1699999000}",
		"{\"iss\":\"me\",\"sub\":\"s\",\"aud\":\"x\",\"exp\":1699999999,\"nbf\":1699999000}",
		"{\"iss\":\"me\",\"sub\":\"s\",\"aud\":\"x\",\"exp\":1700000100,\"nbf\":1700000050}",
		"{\"iss\":\"you\",\"sub\":\"s\",\"aud\":\"x\",\"exp\":1700000100,\"nbf\":1699999000}",
		"{\"iss\":\"me\",\"aud\":\"x\",\"exp\":1700000100,\"nbf\":1699999000}",
		"{\"iss\":\"me\",\"sub\":\"s\",\"aud\":\"y\",\"exp\":1700000100,\"nbf\":1699999000}" };
	const char *HH = "{\"alg\":\"HS256\",\"typ\":\"JWT\"}", *HE = "{\"alg\":\"ES256\",\"typ\":\"JWT\"}", *HN = "{\"alg\":\"none\"}";
	for (int i = 0; i < 6; i++) { TOK[i] = vh_ref_token(&KH, JWT_ALG_HS256, HH, PL[i]); TOKKIND[i] = 1; }
	TOK[6] = vh_ref_token(&KH, JWT_ALG_HS256, HH, PL[0]); TOKKIND[6] = 1;
	{ size_t l = strlen(TOK[6]); TOK[6][l - 3] = TOK[6][l - 3] == 'A' ? 'B' : 'A'; }
	TOK[7] = vh_ref_token(&KE, JWT_ALG_ES256, HE, PL[0]); TOKKIND[7] = 2;
	TOK[8] = vh_ref_token(&KE, JWT_ALG_ES256, HE, PL[1]); TOKKIND[8] = 2;
	TOK[9] = vh_ref_token(&KE, JWT_ALG_ES256, HE, PL[0]); TOKKIND[9] = 2;
	{ size_t l = strlen(TOK[9]); TOK[9][l - 3] = TOK[9][l - 3] == 'A' ? 'B' : 'A'; }
	for (int i = 0; i < 6; i++) { TOK[10 + i] = vh_ref_token(NULL, JWT_ALG_NONE, HN, PL[i]); TOKKIND[10 + i] = 0; }
	TOK[16] = vh_ref_token(&KH, JWT_ALG_HS256, HH, "{\"iss\":\"me\",\"sub\":\"s\",\"aud\":\"x\"}"); TOKKIND[16] = 1;
	/* tokens whose header carries further members (crit, kid, cty) */
	TOK[17] = vh_ref_token(&KH, JWT_ALG_HS256, "{\"alg\":\"HS256\",\"typ\":\"JWT\",\"crit\":[\"exp\"],\"kid\":\"k0\",\"cty\":\"json\"}", PL[0]); TOKKIND[17] = 1;
	TOK[18] = vh_ref_token(&KE, JWT_ALG_ES256, "{\"alg\":\"ES256\",\"crit\":[\"exp\"],\"kid\":\"k0\"}", PL[0]); TOKKIND[18] = 2;
	TOK[19] = vh_ref_token(&KH, JWT_ALG_HS256, "{\"alg\":\"HS256\",\"typ\":\"JWT\",\"crit\":[\"exp\"]}", PL[3]); TOKKIND[19] = 1;
	/* payloads without any of the checked claims: whatever the callback adds must not count */
	TOK[20] = vh_ref_token(&KH, JWT_ALG_HS256, HH, "{}"); TOKKIND[20] = 1;
	TOK[21] = vh_ref_token(NULL, JWT_ALG_NONE, HN, "{}"); TOKKIND[21] = 0;
	TOK[22] = vh_ref_token(&KH, JWT_ALG_HS256, HH, "{\"name\":\"bob\"}"); TOKKIND[22] = 1;
	/* large payloads: the checked claims lie beyond the first 1 / 4 / 64 KiB of the serialised claims (member names sort after "a"),
	 * or before a large tail (filler "zz") */
	{
		static const struct { int kind; int n; const char *fname; const char *rest; } BIG[6] = {
			{ 1, 5000, "a", "\"iss\":\"me\",\"sub\":\"s\",\"aud\":\"x\",\"exp\":1700000100,\"nbf\":1699999000" },
			{ 1, 5000, "a", "\"iss\":\"me\",\"sub\":\"s\",\"aud\":\"x\",\"exp\":1699999999,\"nbf\":1699999000" },
			{ 1, 5000, "a", "\"iss\":\"yo\",\"sub\":\"s\",\"aud\":\"x\",\"exp\":1700000100,\"nbf\":1699999000" },
			{ 0, 70000, "a", "\"iss\":\"me\",\"sub\":\"s\",\"aud\":\"x\",\"exp\":1699999999,\"nbf\":1699999000" },
			{ 1, 5000, "zz", "\"iss\":\"me\",\"sub\":\"s\",\"aud\":\"x\",\"exp\":1699999999,\"nbf\":1699999000" },
			{ 1, 4050, "a", "\"aud\":\"x\",\"exp\":1700000100,\"iss\":\"yo\",\"nbf\":1699999000,\"sub\":\"s\"" } };
		for (int i = 0; i < 6; i++) {
			char *pl = malloc((size_t)BIG[i].n + 256), *fill = malloc((size_t)BIG[i].n + 1);
			memset(fill, 'A', (size_t)BIG[i].n); fill[BIG[i].n] = 0;
			sprintf(pl, "{\"%s\":\"%s\",%s}", BIG[i].fname, fill, BIG[i].rest);
			TOK[23 + i] = BIG[i].kind ? vh_ref_token(&KH, JWT_ALG_HS256, HH, pl) : vh_ref_token(NULL, JWT_ALG_NONE, HN, pl);
			TOKKIND[23 + i] = BIG[i].kind;
			free(pl); free(fill);
		}
	}
}

/* policy bits: 1 exp on, 2 nbf on, 4 iss=me, 8 sub=s, 16 aud=x */
static jwt_checker_t *mk_checker(int policy, int kind, int prov)
{
	jwt_checker_t *c = jwt_checker_new();
	if (!c) vh_harness_fail("checker_new");
	if (kind == 1 && jwt_checker_setkey(c, JWT_ALG_HS256, IH[prov])) vh_harness_fail("setkey hs");
	if (kind == 2 && jwt_checker_setkey(c, JWT_ALG_ES256, IE[prov])) vh_harness_fail("setkey es");
	if (!(policy & 1)) jwt_checker_time_leeway(c, JWT_CLAIM_EXP, -1);
	if (!(policy & 2)) jwt_checker_time_leeway(c, JWT_CLAIM_NBF, -1);
	if (policy & 4) jwt_checker_claim_set(c, JWT_CLAIM_ISS, "me");
	if (policy & 8) jwt_checker_claim_set(c, JWT_CLAIM_SUB, "s");
	if (policy & 16) jwt_checker_claim_set(c, JWT_CLAIM_AUD, "x");
	return c;
}

int main(int argc, char **argv)
{
	vh_args_t a;
	vh_rng_t rng;
	unsigned long pairs = 0, mism = 0, accp = 0, rejp = 0, nonzero = 0, repeats = 0;
	int L;
	static int base[2][32][NTOK];
	long nprog = 0, pidx = 0;
	vh_parse_args(argc, argv, &a);
	L = a.n > 0 ? (int)a.n : 2;
	vh_rng_seed(&rng, a.seed, 19);
	if (vh_key_gen(&KH, "oct:32", &rng) || vh_key_gen(&KE, "ec:P-256", &rng)) vh_harness_fail("keygen");
	for (int p = 0; p < 2; p++) {
		vh_set_prov(p);
		IH[p] = vh_key_load(&KH, 1, NULL, &sets[p]);
		IE[p] = vh_key_load(&KE, 0, NULL, &sets[p]);
	}
	build_tokens();
	vh_now = NOW;
	/* callback-free baseline, once */
	for (int prov = 0; prov < 2; prov++) for (int pol = 0; pol < 32; pol++) for (int t = 0; t < NTOK; t++) {
		jwt_checker_t *c;
		vh_set_prov(prov);
		c = mk_checker(pol, TOKKIND[t], prov);
		base[prov][pol][t] = jwt_checker_verify(c, TOK[t]);
		jwt_checker_free(c);
	}
	for (int len = 0; len <= L; len++) { long c = 1; for (int i = 0; i < len; i++) c *= NOPS; nprog += c; }
	for (int len = 0; len <= L; len++) {
		long cnt = 1;
		for (int i = 0; i < len; i++) cnt *= NOPS;
		for (long v = 0; v < cnt; v++, pidx++) {
			prog_t pg;
			long t0 = v;
			char ptxt[160] = "";
			if (!vh_mine(&a, pidx)) continue;
			pg.n = len; pg.ret = 0;
			for (int i = 0; i < len; i++) { pg.op[i] = (int)(t0 % NOPS); t0 /= NOPS; }
			for (int i = 0; i < len; i++) { strncat(ptxt, i ? "; " : "", sizeof(ptxt) - strlen(ptxt) - 1); strncat(ptxt, OPNAME[pg.op[i]], sizeof(ptxt) - strlen(ptxt) - 1); }
			vh_case_begin(pidx, "\"prog\":\"%s\"", ptxt);
			for (int ret = 0; ret < 2; ret++) {
				/* programs returning non-zero: only for a subset (every 7th) to bound the work */
				if (ret && (pidx % 7)) continue;
				{	/* non-zero values of every width: small, negative, multiples of 256 and 65536, the int extremes */
					static const int RV[] = { 1, -1, 2, 255, 256, -256, 512, 65536, -65536, 16777216, INT32_MIN, INT32_MAX, 128, -128, 0x7fffff00, 0x40000000 };
					pg.ret = ret ? RV[(pidx / 7) % 16] : 0;
				}
				for (int prov = 0; prov < 2; prov++) for (int pol = 0; pol < 32; pol++) for (int t = 0; t < NTOK; t++) {
					jwt_checker_t *c;
					int rc, expect = base[prov][pol][t];
					/* ES256 tokens only under a quarter of the policies: signature verification dominates the cost */
					if (TOKKIND[t] == 2 && (pol & 3) != (int)(pidx & 3)) continue;
					vh_set_prov(prov);
					c = mk_checker(pol, TOKKIND[t], prov);
					jwt_checker_setcb(c, prog_cb, &pg);
					rc = jwt_checker_verify(c, TOK[t]);
					pairs++;
					if (pg.ret) {
						nonzero++;
						if (rc == 0) { mism++; printf("[\"X\",\"%s\",%d,\"%s\",%d,%d,%d,%d]\n", ptxt, pol, TOKNAME[t], prov, rc, expect, pg.ret); }
					} else {
						if (expect == 0) accp++; else rejp++;
						if ((rc == 0) != (expect == 0)) {
							mism++;
							if (mism < 400) printf("[\"X\",\"%s\",%d,\"%s\",%d,%d,%d,0]\n", ptxt, pol, TOKNAME[t], prov, rc, expect);
						} else if ((pairs % 20011) == 0)
							printf("[\"X\",\"%s\",%d,\"%s\",%d,%d,%d,0]\n", ptxt, pol, TOKNAME[t], prov, rc, expect);
					}
					/* a third of the cells: the same token once more on the same checker (what the callback did to the first jwt_t must not
					 * reach the second verification either) */
					if (!pg.ret && (pidx + t + pol) % 3 == 0) {
						int rc2 = jwt_checker_verify(c, TOK[t]);
						pairs++; repeats++;
						if ((rc2 == 0) != (expect == 0)) {
							mism++;
							if (mism < 400) printf("[\"X\",\"%s; THEN THE SAME TOKEN AGAIN ON THE SAME CHECKER\",%d,\"%s\",%d,%d,%d,0]\n", ptxt, pol, TOKNAME[t], prov, rc2, expect);
						}
					}
					/* a refusing callback, asked again: the same token and then another one on the checker whose callback has just refused.
					 * The refusal is a verdict on one verification; it changes nothing about the checker, and every later non-zero return
					 * fails its verification as the first one did */
					if (pg.ret) {
						int t2 = (t + 1 + (int)(pidx % (NTOK - 1))) % NTOK;
						int rc2 = jwt_checker_verify(c, TOK[t]), rc3 = jwt_checker_verify(c, TOK[t2]);
						pairs += 2; repeats += 2; nonzero += 2;
						if (rc2 == 0) { mism++; printf("[\"X\",\"%s; THEN THE SAME TOKEN AGAIN ON THE CHECKER WHOSE CALLBACK REFUSED\",%d,\"%s\",%d,%d,%d,%d]\n", ptxt, pol, TOKNAME[t], prov, rc2, expect, pg.ret); }
						if (rc3 == 0) { mism++; printf("[\"X\",\"%s; THEN ANOTHER TOKEN ON THE CHECKER WHOSE CALLBACK REFUSED\",%d,\"%s\",%d,%d,%d,%d]\n", ptxt, pol, TOKNAME[t2], prov, rc3, base[prov][pol][t2], pg.ret); }
					}
					jwt_checker_free(c);
				}
			}
		}
	}
	(void)nprog;
	printf("[\"STATS\",%lu,%lu,%lu,%lu,%lu,%lu]\n", pairs, mism, accp, rejp, nonzero, repeats);
	for (int p = 0; p < 2; p++) jwks_free(sets[p]);
	for (int t = 0; t < NTOK; t++) free(TOK[t]);
	vh_key_free(&KH); vh_key_free(&KE);
	return 0;
}

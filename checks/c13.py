"""C13 — a verdict depends only on configuration, token and clock: no hidden state."""
import json
import vf


def judge(path):
    out = dict(n=0, distinct=set(), viol=[], samples=[], c={}, toks={})
    c = out["c"]
    hist = {}

    def cnt(k):
        c[k] = c.get(k, 0) + 1

    with open(path, errors="replace") as fh:
        for line in fh:
            if not line.startswith("["):
                continue
            try:
                ev = json.loads(line)
            except Exception:
                continue
            if ev[0] == "TOK":
                out["toks"][ev[1]] = ev[2]
                continue
            h = hist.setdefault(ev[1], [])
            if len(hist) > 3:
                hist.pop(next(iter(hist)))
            h.append(ev)
            out["n"] += 1
            if ev[0] == "V":
                _, hid, step, cfg, tok, cl, rr, er, mr, rf, ef, mf = ev[:12]
                pristine = ev[12] if len(ev) > 12 else None
                prev = h[-2][4] if len(h) > 1 and h[-2][0] == "V" else None
                out["distinct"].add(("V", cfg, prev, tok, cl, rf))
                cnt("verify_steps")
                cnt("verify_accepts" if rf == 0 else "verify_rejects")
                if pristine is not None and (rr != 0) != (pristine != 0):
                    out["viol"].append(("verify-verdict-differs-from-pristine:cfg%d:prev=%s:tok=%s" % (cfg, prev, tok),
                                        "reused checker returned %d, but the same configuration gave %d on this token in a forked child that had verified nothing before "
                                        "(fresh twin now: %d)" % (rr, pristine, rf), dict(history=h[-4:], tok=tok, prev=prev)))
                elif (rr == 0) != (rf == 0):
                    out["viol"].append(("verify-verdict-differs:cfg%d:prev=%s:tok=%s:%s" % (cfg, prev, tok, "cleared" if cl else "uncleared"),
                                        "reused checker returned %d, fresh twin %d" % (rr, rf), dict(history=h[-4:], tok=tok, prev=prev)))
                elif bool(er) != bool(ef):
                    out["viol"].append(("verify-errorflag-differs:cfg%d:prev=%s:tok=%s:%s" % (cfg, prev, tok, "cleared" if cl else "uncleared"),
                                        "reused checker error flag %d, fresh twin %d" % (er, ef), dict(history=h[-4:])))
                elif cl and mr != mf:
                    out["viol"].append(("verify-message-differs:cfg%d:tok=%s" % (cfg, tok), "message after error_clear differs: %r vs %r" % (mr, mf), dict(history=h[-4:])))
            elif ev[0] == "G":
                _, hid, step, cfg, act, cl, nr, er, mr, nf, ef, mf, same_hp, same, refr, reff, det = ev
                prev = h[-2][4] if len(h) > 1 and h[-2][0] == "G" else None
                out["distinct"].add(("G", cfg, prev, act, cl, nf))
                cnt("generate_steps")
                cnt("generate_null" if nf else "generate_tokens")
                key = "cfg%d:prev=%s:act=%s:%s" % (cfg, prev, act, "cleared" if cl else "uncleared")
                if nr != nf:
                    out["viol"].append(("generate-result-differs:" + key, "reused builder NULL=%d, fresh twin NULL=%d" % (nr, nf), dict(history=h[-4:])))
                elif not nf:
                    if not same_hp:
                        out["viol"].append(("generate-content-differs:" + key, "header/payload of the reused builder's token differ from the fresh twin's", dict(history=h[-4:])))
                    elif det and not same:
                        out["viol"].append(("generate-token-differs:" + key, "deterministic-alg token differs from the fresh twin's", dict(history=h[-4:])))
                    elif act != 6 and ((cfg % 10) != 0 or (act == 5 and cfg < 10)) and (refr != 1 or reff != 1):
                        out["viol"].append(("generate-token-not-verifiable:" + key, "token not reference-verifiable (reused %d, fresh %d)" % (refr, reff), dict(history=h[-4:])))
                elif bool(er) != bool(ef):
                    out["viol"].append(("generate-errorflag-differs:" + key, "error flags differ", dict(history=h[-4:])))
            if len(out["samples"]) < 2 and len(h) == 3:
                out["samples"].append(h[:])
    return out


def collect(rep, tier, seed, replay, rd, tag=""):
    b = vf.driver("d_hist", "asan", clock=True)
    outs, crashes = vf.run_shards(b, ["--mode", "pairs", "--seed", seed], vf.NCPU, rd, tag=tag + "p", timeout=3000)
    rep.crash_violations(crashes)
    n = 300000 if tier == "thorough" else 6000
    outs2, crashes2 = vf.run_shards(b, ["--mode", "rand", "--n", n, "--seed", seed], vf.NCPU, rd, tag=tag + "r", timeout=3000)
    rep.crash_violations(crashes2, prefix="rand:")
    return outs + outs2


def run(tier, seed, replay):
    rep = vf.Report("C13", tier, seed)
    rep.rule = ("every ordered pair (A then B, then a valid token) of a 33-member token pool (one member per failure layer plus valid ones) x "
                "5 checker configurations (HS256 by setkey, with kid callback, key-less, key alg attribute, RS256) x with/without error_clear x provider, every ordered pair of 6 builder actions x 5 builder "
                "configurations likewise, then random histories up to length 20; at every step a fresh identically configured twin is "
                "given the same input at the same clock and return value, error flag (and message after a clear; token bytes for "
                "deterministic algs, header+payload and reference-verifiability otherwise) are compared. distinct = distinct "
                "(op, configuration, previous input, input, cleared, outcome) tuples")
    rep.assumptions = ["two oracles: a fresh twin at the same step, and the 'pristine' verdict of the same (provider, configuration, token) taken in a child process forked before this "
                       "process verified anything, one child per verdict (catches process- or thread-wide hidden state that a fresh twin shares, also state that "
                       "is keyed by something other than the key itself: all keys of the workload carry the same kid)",
                       "messages are compared only when the error was cleared just before the call"]
    rd = vf.run_dir("C13")
    outs = collect(rep, tier, seed, replay, rd)
    toks = {}
    for r in vf.pmap(judge, [(p,) for p in outs]):
        rep.evaluations += r["n"]
        rep.distinct |= r["distinct"]
        toks.update(r["toks"])
        for k, what, wit in r["viol"]:
            rep.violation(k, what, wit)
        for s in r["samples"]:
            rep.sample(s)
        for k, v in r["c"].items():
            rep.count(k, v)
    rep.extra["token_pool"] = toks
    c = rep.counters
    vf.need(rep, c.get("verify_accepts", 0) > 500 and c.get("verify_rejects", 0) > 500, "verify outcomes not diverse")
    vf.need(rep, c.get("generate_tokens", 0) > 300 and c.get("generate_null", 0) > 300, "generate outcomes not diverse")
    return rep

/* C12 (part): provider selection by name / id / JWT_CRYPTO, and key portability across providers.
 * modes: ops  -> ["O", kind(name|id), arg, before, rc, after]
 *        env  -> ["E", provider_at_start]           (JWT_CRYPTO is set by the parent)
 *        port -> ["P", key, alg, load_prov, use_prov, token_null, verify_rc, ref_valid]
 */
#include "vh.h"

int main(int argc, char **argv)
{
	vh_args_t a;
	vh_rng_t rng;
	/* provider in force before anything was called: result of the library constructor */
	char start[32];
	snprintf(start, sizeof(start), "%s", jwt_get_crypto_ops());
	vh_parse_args(argc, argv, &a);
	vh_rng_seed(&rng, a.seed, 12);
	if (!strcmp(a.mode, "env")) {
		printf("[\"E\",\"%s\",%d]\n", start, (int)jwt_get_crypto_ops_t());
		return 0;
	}
	if (!strcmp(a.mode, "ops")) {
		static const char *NAMES[] = { "openssl", "gnutls", "OpenSSL", "OPENSSL", "GnuTLS", "GNUTLS", "openss", "gnutl", "openssl ", " openssl",
			"opensslx", "gnutlss", "", "mbedtls", "any", "none", "gnutls\n", "open", "g", "openssl,gnutls", "wincrypt", "o" };
		for (int startp = 0; startp < 2; startp++) {
			/* the fixed near-misses, then each exact name decorated with one character in front, behind or both (quotes as an env file
			 * would pass them, blanks, separators, brackets), with a typical prefix/suffix, and with one character doubled or dropped */
			static const char DECO[] = "\"'` \t\n\r,;:=/.-_\\()[]{}<>0x*?#@!~+&|^%$";
			static const char *EXACT[] = { "openssl", "gnutls" };
			static const char *AFFIX[][2] = { { "lib", "" }, { "", "3" }, { "", ".so" }, { "crypto=", "" }, { "JWT_CRYPTO=", "" }, { "", "-3.0" }, { "", "/" }, { "./", "" }, { "", "\\0" }, { "\xef\xbb\xbf", "" } };
			size_t nfixed = sizeof(NAMES) / sizeof(*NAMES), ndeco = sizeof(DECO) - 1, naff = sizeof(AFFIX) / sizeof(AFFIX[0]);
			size_t total = nfixed + 2 * (ndeco * 3 + naff + 14);
			for (size_t i = 0; i < total; i++) {
				char before[32], after[32], nm[64];
				int rc;
				if (i < nfixed) snprintf(nm, sizeof(nm), "%s", NAMES[i]);
				else {
					size_t q = i - nfixed, per = ndeco * 3 + naff + 14, w = q % per;
					const char *ex = EXACT[q / per];
					size_t el = strlen(ex);
					if (w < ndeco * 3) {
						char c = DECO[w / 3];
						switch (w % 3) {
						case 0: snprintf(nm, sizeof(nm), "%c%s", c, ex); break;
						case 1: snprintf(nm, sizeof(nm), "%s%c", ex, c); break;
						default: snprintf(nm, sizeof(nm), "%c%s%c", c, ex, c); break;
						}
					} else if (w < ndeco * 3 + naff) snprintf(nm, sizeof(nm), "%s%s%s", AFFIX[w - ndeco * 3][0], ex, AFFIX[w - ndeco * 3][1]);
					else {
						size_t v = w - ndeco * 3 - naff, pos = v % 7 < el ? v % 7 : el - 1;
						if (v < 7) { snprintf(nm, sizeof(nm), "%.*s%c%s", (int)pos, ex, ex[pos], ex + pos); }		/* one character doubled */
						else { snprintf(nm, sizeof(nm), "%.*s%s", (int)pos, ex, ex + pos + 1); }			/* one character dropped */
					}
				}
				vh_set_prov(startp);
				snprintf(before, sizeof(before), "%s", jwt_get_crypto_ops());
				rc = jwt_set_crypto_ops(nm);
				snprintf(after, sizeof(after), "%s", jwt_get_crypto_ops());
				printf("[\"O\",\"name\","); vh_put_jstr(stdout, nm); printf(",\"%s\",%d,\"%s\",%d]\n", before, rc, after, (int)jwt_get_crypto_ops_t());
			}
			static const int IDS[] = { -2, -1, 0, 1, 2, 3, 4, 5, 6, 7, 8, 9, 10, 11, 16, 17, 18, 33, 34, 129, 130, 255, 256, 257, 258, 513, 514, 65537, 65538,
				0x1000001, 0x1000002, 0x40000001, 0x40000002, -6, -7, -14, -15, -254, -255, -65534, -65535, 919192, 919193, 919194,
				INT32_MAX, INT32_MAX - 5, INT32_MAX - 6, INT32_MIN, INT32_MIN + 1, INT32_MIN + 2 };
			for (size_t q = 0; q < sizeof(IDS) / sizeof(IDS[0]); q++) {
				int id = IDS[q];
				char before[32], after[32];
				int rc;
				vh_set_prov(startp);
				snprintf(before, sizeof(before), "%s", jwt_get_crypto_ops());
				rc = jwt_set_crypto_ops_t((jwt_crypto_provider_t)id);
				snprintf(after, sizeof(after), "%s", jwt_get_crypto_ops());
				printf("[\"O\",\"id\",%d,\"%s\",%d,\"%s\",%d]\n", id, before, rc, after, (int)jwt_get_crypto_ops_t());
			}
		}
		return 0;
	}
	/* port */
	{
		/* the last keys are larger than anything the test suite ships (RSA above 8192 bits: signatures above 1024 octets; oct keys
		 * above every hash block); the 16384-bit key only in the thorough tier */
		static const char *SPECS[] = { "oct:48", "rsa:2048", "ec:P-256", "ec:P-384", "ec:P-521", "okp:Ed25519", "okp:Ed448", "oct:200", "rsafile:8200", "rsafile:8448", "rsafile:16384" };
		static const int ALGS[] = { JWT_ALG_HS384, JWT_ALG_RS256, JWT_ALG_ES256, JWT_ALG_ES384, JWT_ALG_ES512, JWT_ALG_EDDSA, JWT_ALG_EDDSA, JWT_ALG_HS256, JWT_ALG_RS512, JWT_ALG_PS256, JWT_ALG_PS384 };
		for (size_t i = 0; i < sizeof(SPECS) / sizeof(*SPECS) - (a.thorough ? 0 : 1); i++) {
			vh_key_t k;
			if (vh_key_gen(&k, SPECS[i], &rng)) vh_harness_fail("keygen");
			for (int lp = 0; lp < 2; lp++) for (int up = 0; up < 2; up++) {
				jwk_set_t *set = NULL;
				const jwk_item_t *priv, *pub;
				jwt_builder_t *b;
				jwt_checker_t *c;
				char *tok;
				int vrc = -1, ref = -1;
				vh_case_begin((long)(i * 4 + (size_t)lp * 2 + (size_t)up), "\"key\":\"%s\",\"load\":%d,\"use\":%d", SPECS[i], lp, up);
				vh_set_prov(lp);
				priv = vh_key_load(&k, 1, NULL, &set);
				pub = vh_key_load(&k, k.kind == VH_K_OCT, NULL, &set);
				vh_set_prov(up);
				b = jwt_builder_new(); c = jwt_checker_new();
				jwt_builder_setkey(b, (jwt_alg_t)ALGS[i], priv);
				jwt_checker_setkey(c, (jwt_alg_t)ALGS[i], pub);
				tok = jwt_builder_generate(b);
				if (tok) { vrc = jwt_checker_verify(c, tok); ref = vh_ref_token_valid(&k, tok, NULL); }
				printf("[\"P\",\"%s\",%d,%d,%d,%d,%d,%d]\n", SPECS[i], ALGS[i], lp, up, tok == NULL, vrc, ref);
				free(tok);
				jwt_builder_free(b); jwt_checker_free(c);
				jwks_free(set);	/* freed under the *using* provider */
			}
			/* the private JWK itself as the checker's key (a private JWK verifies as well), with the key_ops members a key file may
			 * carry: what a JWK says about its intended use must not make the providers differ */
			if (k.kind != VH_K_OCT) {
				static const char *OPS[] = { NULL, "\"key_ops\":[\"sign\"]", "\"key_ops\":[\"verify\"]", "\"key_ops\":[\"sign\",\"verify\"]", "\"key_ops\":[]",
					"\"key_ops\":[\"encrypt\"]", "\"use\":\"enc\"", "\"use\":\"sig\",\"key_ops\":[\"sign\"]" };
				for (int oi = 0; oi < 8; oi++) for (int up = 0; up < 2; up++) {
					jwk_set_t *set = NULL;
					char *txt = vh_key_jwk(&k, 1, NULL, NULL, OPS[oi]), label[96];
					const jwk_item_t *priv;
					jwt_builder_t *b; jwt_checker_t *c;
					char *tok;
					int vrc = -1, ref = -1, lp = oi & 1;
					vh_set_prov(lp);
					set = jwks_create(txt); free(txt);
					priv = set ? jwks_item_get(set, 0) : NULL;
					if (!priv || jwks_item_error(priv)) vh_harness_fail("private JWK with %s does not load", OPS[oi] ? OPS[oi] : "no key_ops");
					vh_set_prov(up);
					b = jwt_builder_new(); c = jwt_checker_new();
					jwt_builder_setkey(b, (jwt_alg_t)ALGS[i], priv);
					jwt_checker_setkey(c, (jwt_alg_t)ALGS[i], priv);
					tok = jwt_builder_generate(b);
					if (tok) { vrc = jwt_checker_verify(c, tok); ref = vh_ref_token_valid(&k, tok, NULL); }
					snprintf(label, sizeof(label), "%s private JWK as verifier, members %d", SPECS[i], oi);
					printf("[\"P\",\"%s\",%d,%d,%d,%d,%d,%d]\n", label, ALGS[i], lp, up, tok == NULL, vrc, ref);
					free(tok);
					jwt_builder_free(b); jwt_checker_free(c);
					jwks_free(set);
				}
			}
			/* provider switched in the middle of a history: the same builder, checker and keyring items are used under
			 * alternating providers (patterns ABABAB and AABBAA); every token must verify under the same checker and the reference */
			for (int lp = 0; lp < 2; lp++) for (int pat = 0; pat < 2; pat++) {
				jwk_set_t *set = NULL;
				const jwk_item_t *priv, *pub;
				jwt_builder_t *b;
				jwt_checker_t *c;
				char *prev = NULL;
				vh_case_begin((long)(1000 + i * 4 + (size_t)lp * 2 + (size_t)pat), "\"key\":\"%s\",\"switch\":%d,\"pattern\":%d", SPECS[i], lp, pat);
				vh_set_prov(lp);
				priv = vh_key_load(&k, 1, NULL, &set);
				pub = vh_key_load(&k, k.kind == VH_K_OCT, NULL, &set);
				b = jwt_builder_new(); c = jwt_checker_new();
				jwt_builder_setkey(b, (jwt_alg_t)ALGS[i], priv);
				jwt_checker_setkey(c, (jwt_alg_t)ALGS[i], pub);
				for (int step = 0; step < 6; step++) {
					int prov = pat == 0 ? (lp + step) & 1 : (lp + step / 2) & 1;
					char *tok;
					int vrc = -1, ref = -1, vprev = -1;
					vh_set_prov(prov);
					tok = jwt_builder_generate(b);
					if (tok) { vrc = jwt_checker_verify(c, tok); ref = vh_ref_token_valid(&k, tok, NULL); }
					if (prev) vprev = jwt_checker_verify(c, prev);	/* token made under the previous provider */
					printf("[\"P2\",\"%s\",%d,%d,%d,%d,%d,%d,%d,%d,%d]\n", SPECS[i], ALGS[i], lp, pat, step, prov, tok == NULL, vrc, ref, vprev);
					free(prev); prev = tok;
				}
				free(prev);
				jwt_builder_free(b); jwt_checker_free(c);
				jwks_free(set);
			}
			vh_key_free(&k);
		}
	}
	return 0;
}

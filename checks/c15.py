"""C15 — header and claim set/get/delete behave as a typed map."""
import json
import vf

NONE, EXIST, NOEXIST, TYPE, INVALID, NOMEM = 0, 1, 2, 3, 4, 5
INT, STR, BOOL, JSON = 1, 2, 3, 4
TARGETS = ["builder.headers", "builder.claims", "jwt_t.headers(builder cb)", "jwt_t.claims(builder cb)",
           "jwt_t.headers(checker cb)", "jwt_t.claims(checker cb)"]
I64 = 1 << 63
UNJ = "unjudged"


def strict_eq(a, b):
    if type(a) is not type(b):
        return False
    if isinstance(a, dict):
        return a.keys() == b.keys() and all(strict_eq(a[k], b[k]) for k in a)
    if isinstance(a, list):
        return len(a) == len(b) and all(strict_eq(x, y) for x, y in zip(a, b))
    return a == b


def no_dups(pairs):
    d = {}
    for k, v in pairs:
        if k in d:
            raise ValueError("dup")
        d[k] = v
    return d


def parse_json_value(text):
    """what jwt_set_json accepts: an object or array without duplicate keys. Returns (ok, value, ambiguous)"""
    try:
        v = json.loads(text, object_pairs_hook=no_dups, parse_constant=lambda x: (_ for _ in ()).throw(ValueError("nan")))
    except Exception:
        return False, None, False
    if not isinstance(v, (dict, list)):
        return False, None, False
    return True, v, False


def model_apply(state, kind, typ, name, value, replace):
    """returns (expected rc or UNJ, expected retval or UNJ/None, state_changes_allowed)"""
    noname = name is None or name == ""
    if kind == "S":
        if typ in (INT, STR, BOOL):
            if noname or (typ == STR and value is None):
                return INVALID, None
            if name in state and not replace:
                return EXIST, None
            state[name] = (bool(value) if typ == BOOL else value)
            return NONE, None
        ok, v, _ = parse_json_value(value if value is not None else "")
        if value is None:
            return UNJ, None          # NULL json text: not exercised
        if not ok:
            return INVALID, None
        if noname:
            if not isinstance(v, dict):
                return UNJ, None      # whole-object set of an array: statement silent, state must stay
            for k, x in v.items():
                if replace or k not in state:
                    state[k] = x
            return NONE, None
        if name in state and not replace:
            return EXIST, None
        state[name] = v
        return NONE, None
    if kind == "G":
        if typ == JSON:
            if noname:
                return NONE, ("json", dict(state))
            if name not in state:
                return NOEXIST, None
            return NONE, ("json", state[name])     # stored value as JSON text (TYPE would also satisfy the statement for scalars)
        if noname:
            return UNJ, None
        if name not in state:
            return NOEXIST, None
        v = state[name]
        if typ == INT:
            return (NONE, ("val", v)) if type(v) is int else (TYPE, None)
        if typ == STR:
            return (NONE, ("val", v)) if type(v) is str else (TYPE, None)
        if typ == BOOL:
            return (NONE, ("val", 1 if v else 0)) if type(v) is bool else (TYPE, None)
    if kind == "D":
        if noname:
            state.clear()
        else:
            state.pop(name, None)
        return NONE, None
    return UNJ, None


def judge(path):
    out = dict(n=0, distinct=set(), viol=[], samples=[], c={})
    c = out["c"]
    state = None
    hist = []
    seqkey = None
    alpha = {}
    pending_prefix = None
    last_actual, last_snap_text = None, None

    def cnt(k):
        c[k] = c.get(k, 0) + 1

    def viol(key, what, ev):
        cnt("viol")
        if len(out["viol"]) < 60:
            out["viol"].append((key, what, dict(seq=ev[1], target=TARGETS[ev[2]], ops=[h[3:11] for h in hist[-8:]], failing=ev[3:])))

    with open(path, errors="replace") as fh:
        for line in fh:
            if not line.startswith("["):
                continue
            try:
                ev = json.loads(line)
            except Exception:
                continue
            if ev[0] == "BB":
                cnt("builder_snapshots_around_callback")
                if ev[3] != ev[5] or ev[4] != ev[6]:
                    cnt("viol")
                    out["viol"].append(("builder-changed-by-token-edit:%s" % TARGETS[ev[2]],
                                        "editing the jwt_t inside the generate callback changed the builder's own headers/claims",
                                        dict(seq=ev[1], target=TARGETS[ev[2]], ops=[h[3:11] for h in hist[-8:]], builder_before=[ev[3], ev[4]], builder_after=[ev[5], ev[6]])))
                continue
            if ev[0] == "A":
                alpha[ev[1]] = ev
                continue
            if ev[0] == "Q":
                pending_prefix = ev[3]
                continue
            if ev[0] == "N":
                prefix, pending_prefix = pending_prefix, None
                state = {"alg": "none"} if ev[2] == 4 else ({"a": 5, "b": "s", "n": {"k": [1, 2]}} if ev[2] in (2, 3) else {})
                hist = []
                seqkey = (ev[1], ev[2])
                last_actual, last_snap_text = None, None
                if prefix:
                    # unlogged prefix of a full-length exhaustive sequence: replay it on the model (judged as a shorter sequence elsewhere)
                    for ai in prefix:
                        a_ = alpha[ai]
                        before = json.loads(json.dumps(state))
                        rc_, _ = model_apply(state, a_[2], a_[3], a_[4], a_[5], a_[6])
                        if rc_ == UNJ:
                            state.clear(); state.update(before)
                        hist.append(["O", ev[1], ev[2], a_[2], a_[3], a_[4], a_[5], a_[6], "(prefix, not logged)", None, None, None])
                        cnt("ops.replayed_prefix")
                continue
            if ev[0] == "STATS":
                out["n"] += ev[1]
                if len(ev) > 3 and ev[3]:
                    out["c"]["gets.with_a_struct_that_carries_a_refused_get"] = out["c"].get("gets.with_a_struct_that_carries_a_refused_get", 0) + ev[3]
                if len(ev) > 2 and ev[2]:
                    out["c"]["seq.near_miss_number_then_int_replace"] = out["c"].get("seq.near_miss_number_then_int_replace", 0) + ev[2]
                continue
            if ev[0] != "O":
                continue
            _, seq, target, kind, typ, name, value, replace, rc, verr, retval, snap = ev
            hist.append(ev)
            cnt("ops." + TARGETS[target])
            before = json.loads(json.dumps(state))
            # integer values beyond the model's exact range do not occur (C long == int64)
            exp_rc, exp_ret = model_apply(state, kind, typ, name, value, replace)
            tname = {1: "INT", 2: "STR", 3: "BOOL", 4: "JSON"}.get(typ, "-")
            opdesc = "%s:%s" % (kind, tname)
            if kind != "D" and rc != verr:
                viol("rc-differs-from-value.error:%s" % opdesc, "call returned %d but stored %d in value.error" % (rc, verr), ev)
            if snap == 1:
                actual, snap = last_actual, last_snap_text      # object unchanged since the previous logged operation
            else:
                try:
                    actual = json.loads(snap) if snap is not None else None
                except Exception:
                    actual = None
                last_actual, last_snap_text = actual, snap
            if typ == STR and kind == "S" and value is not None:
                try:
                    value.encode("latin-1").decode("utf-8")
                except Exception:
                    # invalid UTF-8: unjudged, resynchronise the model from the snapshot
                    cnt("unjudged.invalid-utf8")
                    state.clear(); state.update(actual if isinstance(actual, dict) else before)
                    continue
            if exp_rc == UNJ:
                cnt("unjudged." + opdesc)
                state.clear(); state.update(before)
                if actual is None or not strict_eq(actual, before):
                    viol("state-changed-by-unjudged-op:%s" % opdesc, "an operation the statement does not fix changed the object", ev)
                    if isinstance(actual, dict):
                        state.clear(); state.update(actual)
                continue
            out["distinct"].add((target, kind, typ, name in before if name else None, replace, exp_rc))
            if rc != exp_rc:
                key = "rc:%s:%s:got%d-want%d" % (opdesc, "noname" if not name else "named", rc, exp_rc)
                viol(key, "operation returned %d, the map model says %d" % (rc, exp_rc), ev)
            elif exp_ret is not None:
                how, want = exp_ret
                if how == "val":
                    if not strict_eq(retval, want):
                        viol("get-value:%s" % tname, "get returned %r, model holds %r" % (retval, want), ev)
                else:
                    try:
                        got = json.loads(retval) if retval is not None else None
                    except Exception:
                        got = "<unparsable>"
                    if not strict_eq(got, want):
                        viol("get-json-value", "JSON get returned %r, model holds %r" % (retval, want), ev)
            if actual is None or not strict_eq(actual, state):
                key = "state:%s:%s:%s" % (opdesc, "noname" if not name else "named", "rc%d" % exp_rc)
                viol(key, "object after the operation differs from the map model: %r vs %r" % (snap[:200] if snap else snap, state), ev)
                if isinstance(actual, dict):
                    state.clear(); state.update(actual)
            if len(out["samples"]) < 2 and len(hist) == 3:
                out["samples"].append(dict(target=TARGETS[target], ops=[h[3:11] for h in hist], final=snap))
    return out


def run(tier, seed, replay):
    rep = vf.Report("C15", tier, seed)
    L = 4 if tier == "thorough" else 3
    rep.rule = ("all operation sequences up to length %d over a 42-operation alphabet (set INT/STR/BOOL/JSON with and without replace on "
                "colliding names, whole-object merges, malformed/duplicate/scalar JSON, empty and NULL names, typed gets, deletes) on "
                "builder headers/claims and on the jwt_t inside builder and checker callbacks, then random sequences to length 40 with "
                "boundary values, then a size sweep (a string member of N-18..N+2 characters for N in 16..65536, so that the JSON text of the object, "
                "of the member and of the pretty forms takes every length around the usual buffer sizes); after every operation the whole object is dumped and compared (type-strict) with a dict model. "
                "distinct = distinct (target, op kind, type, name existed?, replace, expected code) tuples" % L)
    rep.assumptions = ["whole-object set of an array, NULL JSON text, typed get with an empty name and invalid UTF-8 strings are unjudged "
                       "except that they must not change the object", "strings are compared as byte strings"]
    rd = vf.run_dir("C15")
    b = vf.driver("d_c15", "asan")
    only = []
    outs, crashes = vf.run_shards(b, ["--mode", "exh", "--n", L, "--seed", seed] + only, vf.NCPU, rd, timeout=3000)
    rep.crash_violations(crashes)
    nr = 500000 if tier == "thorough" else 20000
    outs2, crashes2 = vf.run_shards(b, ["--mode", "rand", "--n", nr, "--seed", seed], vf.NCPU, rd, tag="r", timeout=3000)
    rep.crash_violations(crashes2, prefix="rand:")
    outs3, crashes3 = vf.run_shards(b, ["--mode", "size", "--seed", seed], vf.NCPU, rd, tag="z", timeout=3000)
    rep.crash_violations(crashes3, prefix="size:")
    for r in vf.pmap(judge, [(p,) for p in outs + outs2 + outs3]):
        rep.evaluations += r["n"]
        rep.distinct |= r["distinct"]
        for k, what, wit in r["viol"]:
            rep.violation(k, what, wit)
        for s in r["samples"]:
            rep.sample(s)
        for k, v in r["c"].items():
            rep.count(k, v)
    for t in TARGETS:
        vf.need(rep, rep.counters.get("ops." + t, 0) > 1000, "target %s hardly exercised" % t)
    rep.exhaustive = True
    rep.extra["exhaustive_sequence_length"] = L
    return rep

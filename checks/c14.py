"""C14 — error reporting contract: failure is always flagged and explained."""
import glob, json, os, re
import vf
from checks import c13, c07, c15, c02
from monitors import policy_model as pm


def judge_hist(path):
    out = dict(n=0, viol=[], msgs=set(), c={}, distinct=set(), samples=[])
    toks = {}
    c = out["c"]

    def chk(kind, who, rc, ef, msg, what, ev):
        out["n"] += 1
        out["msgs"].add(msg)
        fail = rc != 0
        out["distinct"].add((kind, what, fail, bool(ef), bool(msg)))
        if fail and not ef:
            out["viol"].append(("%s:fails-without-error-flag:%s" % (kind, what), "%s returned failure but the error flag is clear (%s object)" % (kind, who), dict(event=ev)))
        elif fail and not msg:
            out["viol"].append(("%s:fails-with-empty-message:%s" % (kind, what), "%s failed with an empty message (%s object)" % (kind, who), dict(event=ev)))
        elif not fail and (ef or msg):
            out["viol"].append(("%s:succeeds-with-error-state:%s" % (kind, what), "%s succeeded but flag=%s msg=%r (%s object)" % (kind, ef, msg, who), dict(event=ev)))
        c[kind + (".fail" if fail else ".ok")] = c.get(kind + (".fail" if fail else ".ok"), 0) + 1

    with open(path, errors="replace") as fh:
        for line in fh:
            if not line.startswith("["):
                continue
            try:
                ev = json.loads(line)
            except Exception:
                continue
            if ev[0] == "TOK":
                toks[ev[1]] = ev[2]
            elif ev[0] == "V":
                _, hid, step, cfg, tok, cl, rr, er, mr, rf, ef, mf = ev[:12]
                name = toks.get(tok, str(tok))
                chk("verify", "reused", rr, er, mr, "cfg%d:%s" % (cfg, name), ev)
                chk("verify", "fresh", rf, ef, mf, "cfg%d:%s" % (cfg, name), ev)
                if len(out["samples"]) < 2 and rf:
                    out["samples"].append(dict(op="verify", token=name, rc=rf, flag=ef, msg=mf))
            elif ev[0] == "G":
                _, hid, step, cfg, act, cl, nr, er, mr, nf, ef, mf = ev[:12]
                chk("generate", "reused", nr, er, mr, "cfg%d:action%d" % (cfg, act), ev)
                chk("generate", "fresh", nf, ef, mf, "cfg%d:action%d" % (cfg, act), ev)
    return out


def judge_policy(path, keys, hdrs):
    out = dict(n=0, viol=[], msgs=set(), c={}, distinct=set(), samples=[])
    c = out["c"]
    with open(path, errors="replace") as fh:
        for line in fh:
            if line.startswith('["KI"'):
                # a key item found flagged after it was used: it must carry a message like any other flagged item
                try:
                    ev = json.loads(line)
                except Exception:
                    continue
                c["key_items_flagged_after_use"] = c.get("key_items_flagged_after_use", 0) + 1
                if not ev[7]:
                    out["viol"].append(("item-flagged-without-message-after-%s:%s" % ("verify" if ev[6] == "v" else "generate", keys.get(ev[3], ("?",))[0].split(":")[0]),
                                        "a keyring item is flagged as bad after use but its message is empty",
                                        dict(idx=ev[1], provider=["openssl", "gnutls"][ev[2]], key=keys.get(ev[3], ("?",))[0], key_alg_index=ev[4], public_form=bool(ev[5]))))
                continue
            if not (line.startswith('["V"') or line.startswith('["G"')):
                continue
            try:
                ev = json.loads(line)
            except Exception:
                continue
            if ev[0] == "V":
                rc, ef, msg, h, sk = ev[14], ev[15], ev[16], ev[11], ev[12]
                what = "hdr=%s:sig=%s" % (hdrs.get(h, h), pm.SIGS.get(sk, sk))
                kind = "verify"
            else:
                rc, ef, msg = ev[11], ev[12], ev[13]
                what = "route%d:cfg=%s:keyalg=%s:%s" % (ev[3], ev[4], ev[6], "pub" if ev[7] else "priv")
                kind = "generate"
            out["n"] += 1
            out["msgs"].add(msg)
            fail = rc != 0
            out["distinct"].add((kind, msg[:24], fail))
            c[kind + (".fail" if fail else ".ok")] = c.get(kind + (".fail" if fail else ".ok"), 0) + 1
            if fail and not ef:
                out["viol"].append(("%s:fails-without-error-flag:%s" % (kind, what), "%s failed but the error flag is clear" % kind, pm.describe(ev, keys, hdrs)))
            elif fail and not msg:
                out["viol"].append(("%s:fails-with-empty-message:%s" % (kind, what), "%s failed with an empty message" % kind, pm.describe(ev, keys, hdrs)))
            elif not fail and (ef or msg):
                out["viol"].append(("%s:succeeds-with-error-state:%s" % (kind, what), "%s succeeded with error state" % kind, pm.describe(ev, keys, hdrs)))
            if len(out["viol"]) > 300:
                break
    return out


def source_messages():
    msgs = set()
    for p in glob.glob(os.path.join(vf.REPO, "libjwt", "*.c")) + glob.glob(os.path.join(vf.REPO, "libjwt", "openssl", "*.c")) + \
            glob.glob(os.path.join(vf.REPO, "libjwt", "gnutls", "*.c")):
        src = open(p, errors="replace").read()
        for m in re.finditer(r'jwt_write_error\(\s*[\w>.&-]+\s*,\s*((?:"[^"]*"\s*)+)', src):
            txt = "".join(re.findall(r'"([^"]*)"', m.group(1)))
            msgs.add(txt.split("%")[0])
        for m in re.finditer(r'(?:SIGN|VERIFY)_ERROR\(\s*"([^"]*)"', src):
            pre = "JWT[OpenSSL]: " if "openssl" in p else "JWT[GnuTLS]: "
            msgs.add(pre + m.group(1))
    return sorted(x for x in msgs if x)


def run(tier, seed, replay):
    rep = vf.Report("C14", tier, seed)
    rep.rule = ("the error contract is asserted on every logged call of four workloads: the reused/fresh history driver (27 token classes, "
                "5 builder actions, pairs and random histories), the policy matrix (every configuration cell x header variant x signature "
                "kind, setkey/callback routes, builder cells), the JWK fault matrix (every bad item must carry a message) and the typed-map "
                "sequences (return code == value.error). distinct = distinct (operation, cause descriptor, failed?, flag, message present) tuples; "
                "the evidence lists which jwt_write_error messages of the source were observed")
    rep.assumptions = ["allocation-failure causes belong to C17 and are not injected here"]
    rd = vf.run_dir("C14")
    # 1. histories
    outs = c13.collect(rep, tier, seed, replay, rd)
    msgs = set()
    for r in vf.pmap(judge_hist, [(p,) for p in outs]):
        rep.evaluations += r["n"]; rep.distinct |= r["distinct"]; msgs |= r["msgs"]
        for k, what, wit in r["viol"]:
            rep.violation(k, what, wit)
        for s in r["samples"]:
            rep.sample(s)
        for k, v in r["c"].items():
            rep.count("hist." + k, v)
    # 1b. malformed-token generator classes of C06 (bit 31 of the mask = some checker returned non-zero with a clear error flag)
    from checks import c06
    from monitors import token_class
    b6 = vf.driver("d_c06", "asan")
    gouts, crashes = vf.run_shards(b6, ["--mode", "gen", "--n", 200000 if tier == "thorough" else 20000, "--seed", seed], vf.NCPU, rd, tag="tok", timeout=3000)
    rep.crash_violations(crashes, prefix="tokens:")
    
    for ev in vf.read_jsonl(gouts):
        if ev[0] == "STATS":
            rep.evaluations += ev[2]; rep.count("tokens.verify_calls", ev[2])
        elif ev[0] == "T":
            rep.count("tokens.logged")
            for bit, key, what in ((31, "verify:fails-without-error-flag", "jwt_checker_verify returned non-zero with a clear error flag"),
                                   (30, "verify:fails-with-empty-message", "jwt_checker_verify returned non-zero, the error flag is set but the message is empty"),
                                   (29, "verify:succeeds-with-error-state", "jwt_checker_verify returned 0 but the error flag is set or the message is non-empty")):
                if ev[2] & (1 << bit):
                    tok = bytes.fromhex(ev[3])
                    verdict, why = token_class.classify(tok)
                    rep.violation("%s:token-class:%s:%s" % (key, c06.GEN[ev[1]] if ev[1] < len(c06.GEN) else "corpus", why), what,
                                  dict(token=tok[:400].decode("latin-1"), token_len=len(tok), classifier=[verdict, why]))
    # 2. policy matrix
    b = vf.driver("d_policy", "asan")
    spec = ("prov=0,1;route=0,1,2,3;cfg=0,1,4,7,10,14,15;keys=none,oct:64,oct:16,rsa:2048,rsa:1024,ec:P-256,ec:secp256k1,okp:Ed25519;kalg=-1,0,1,4,7,14,15;pub=0,1;"
            "hdr=0..63;sig=0,1,2,3,6,7,9;op=v,g")
    if tier == "thorough":
        spec = c02.spec("thorough")
    pouts, crashes = vf.run_shards(b, ["--arg1", spec, "--seed", seed], vf.NCPU, rd, tag="pol", timeout=3000)
    rep.crash_violations(crashes, prefix="policy:")
    keys, hdrs = pm.load_meta(pouts)
    for r in vf.pmap(judge_policy, [(p, keys, hdrs) for p in pouts]):
        rep.evaluations += r["n"]; rep.distinct |= r["distinct"]; msgs |= r["msgs"]
        for k, what, wit in r["viol"]:
            rep.violation(k, what, wit)
        for k, v in r["c"].items():
            rep.count("policy." + k, v)
    # 3. JWK fault matrix: bad items carry a message
    b7 = vf.driver("d_c07", "asan")
    docs = c07.gen_docs("quick", seed, c07.templates(seed, rd))
    dpath = os.path.join(rd, "docs.txt")
    with open(dpath, "w") as fh:
        for e, t in docs:
            fh.write(("E%d:" % e if e is not None else "") + t.hex() + "\n")
    jouts, crashes = vf.run_shards(b7, ["--mode", "docs", "--arg1", dpath, "--seed", seed], vf.NCPU, rd, tag="jwk", timeout=3000)
    rep.crash_violations(crashes, prefix="jwk:")
    for r in vf.pmap(c07.judge, [(p,) for p in jouts]):
        rep.evaluations += r["n"]
        rep.count("jwk.items_error", r["c"].get("items_error", 0)); rep.count("jwk.items_good", r["c"].get("items_good", 0))
        msgs |= r.get("msgs", set())
        for k, what, wit in r["viol"]:
            if k in ("item-error-empty-message", "notjson-empty-message"):
                rep.violation("jwk:" + k, what, wit)
    # 4. typed map: return code equals value.error
    b15 = vf.driver("d_c15", "asan")
    mouts, crashes = vf.run_shards(b15, ["--mode", "exh", "--n", 2, "--seed", seed], vf.NCPU, rd, tag="map", timeout=3000)
    rep.crash_violations(crashes, prefix="map:")
    for r in vf.pmap(c15.judge, [(p,) for p in mouts]):
        rep.evaluations += r["n"]
        rep.count("map.ops", r["n"])
        for k, what, wit in r["viol"]:
            if k.startswith("rc-differs-from-value.error"):
                rep.violation("map:" + k, what, wit)
    src = source_messages()
    seen = sorted(s for s in src if any(m.startswith(s[:40]) for m in msgs if m))
    rep.extra["error_messages_in_source"] = len(src)
    rep.extra["error_messages_observed"] = len(seen)
    rep.extra["error_messages_not_observed"] = [s for s in src if s not in seen]
    c = rep.counters
    vf.need(rep, c.get("hist.verify.fail", 0) > 1000 and c.get("hist.verify.ok", 0) > 1000, "history workload not diverse")
    vf.need(rep, c.get("policy.verify.fail", 0) > 1000 and c.get("policy.generate.fail", 0) > 100, "policy workload not diverse")
    vf.need(rep, c.get("jwk.items_error", 0) > 200, "too few bad JWK items")
    vf.need(rep, c.get("tokens.verify_calls", 0) > 100000 and c.get("tokens.logged", 0) > 100, "malformed-token stage observed nothing")
    vf.need(rep, len(seen) >= 25, "fewer than 25 distinct library error messages observed (%d)" % len(seen))
    return rep

"""Reference model for the policy matrix (d_policy.c logs).  Used by C02, C03, C09 (and C19's admission clause).

Event layouts (JSON arrays):
 K: ["K", keyidx, name, kind, bits, crv]
 H: ["H", h, json_text, intended_alg]
 S/T: [tag, idx, prov, route, cfg, key, kalg, pub, setkey_rc, errflag]      (checker / builder setkey)
 V: ["V", idx, prov, route, cfg, key, kalg, pub, setkey_rc, eff_alg, eff_key, h, sk, refvalid, rc, errflag, msg, cbcalls, hooks(, tok)]
 G: ["G", idx, prov, route, cfg, key, kalg, pub, setkey_rc, eff_alg, eff_key, rc, errflag, msg, halg, third_empty, refvalid, shape_ok, cbcalls, hooks(, tok)]
"""
import json

NONE, INVAL = 0, 15
NAMES = ["none", "HS256", "HS384", "HS512", "RS256", "RS384", "RS512", "ES256", "ES384", "ES512",
         "PS256", "PS384", "PS512", "ES256K", "EdDSA"]
FAM = {1: "HS", 2: "HS", 3: "HS", 4: "RS", 5: "RS", 6: "RS", 7: "ES", 8: "ES", 9: "ES", 10: "PS", 11: "PS", 12: "PS",
       13: "ES", 14: "ED"}
HASHBITS = {1: 256, 2: 384, 3: 512}
ECBITS = {7: 256, 8: 384, 9: 521, 13: 256}
K_OCT, K_RSA, K_RSAPSS, K_EC, K_OKP = 1, 2, 3, 4, 5
# jwk_key_type_t in jwt.h
KTY_EC, KTY_RSA, KTY_OKP, KTY_OCT = 1, 2, 3, 4


def key_alg_value(kalg):
    """alg stored on the item for JWK alg attribute index kalg (-1 absent, 0..14 name, 15 unknown string)."""
    if kalg in (-1, 0):
        return NONE
    return INVAL if kalg == 15 else kalg


def table_admits(alg, key_present, kalg):
    """The documented jwt_builder_setkey / jwt_checker_setkey table.  None = unjudged (INVAL involved)."""
    if alg == INVAL:
        return None
    if not key_present:
        return alg == NONE
    ka = key_alg_value(kalg)
    if ka == INVAL:
        return None
    if ka == NONE:
        return alg != NONE
    if alg == NONE:
        return True
    return alg == ka


def pinned(eff_alg, kalg):
    return eff_alg if eff_alg != NONE else key_alg_value(kalg)


def family_fits(alg, key):
    """key = (name, kind, bits, crv).  Generous reading of the statements (size only for EC)."""
    fam = FAM.get(alg)
    _, kind, bits, crv = key
    if fam == "HS":
        return kind == K_OCT
    if fam in ("RS", "PS"):
        return kind in (K_RSA, K_RSAPSS)
    if fam == "ES":
        return kind == K_EC and bits == ECBITS[alg]
    if fam == "ED":
        return kind == K_OKP and crv in ("Ed25519", "Ed448")
    return False


def floor_ok(alg, key):
    fam = FAM.get(alg)
    _, kind, bits, crv = key
    if fam == "HS":
        return kind == K_OCT and bits >= HASHBITS[alg]
    if fam in ("RS", "PS"):
        return kind in (K_RSA, K_RSAPSS) and bits >= 2048
    if fam == "ES":
        return kind == K_EC and bits == ECBITS[alg]
    if fam == "ED":
        return kind == K_OKP and crv in ("Ed25519", "Ed448")
    return False


def kty_fits(alg, kty):
    fam = FAM.get(alg)
    return {"HS": KTY_OCT, "RS": KTY_RSA, "PS": KTY_RSA, "ES": KTY_EC, "ED": KTY_OKP}.get(fam) == kty


ROUTES = {0: "setkey", 1: "cb sets key+alg", 2: "cb sets key only", 3: "setkey(none,key)+cb sets alg", 4: "setkey+noop cb",
          5: "setkey, then refused setkey(alg, no key)", 6: "setkey, then refused setkey(mismatch)", 7: "setkey(HS512, oct:64), then the cell's setkey",
          8: "setkey(none, oct:64 with alg HS512), then cb replaces key+alg",
          9: "cb supplies the key with its natural alg once (warm-up), then with the cell's alg",
          10: "setkey, cb selects (HS512, oct:64) for the first token only, later tokens judged under the setkey pin",
          11: "setkey(none, oct:64 with alg HS512), then cb replaces the key only"}
SIGS = {0: "empty", 1: "garbage", 2: "valid-by-config-key", 3: "hmac-empty-key", 4: "hmac-public-pem", 5: "hmac-zero-key",
        6: "two-segments-only", 7: "empty-third-plus-fourth-segment", 8: "valid-plus-trailing-dot", 9: "padding-only"}


def describe(ev, keys, hdrs):
    tag = ev[0]
    d = dict(op={"V": "verify", "G": "generate", "S": "checker_setkey", "T": "builder_setkey"}[tag],
             idx=ev[1], provider=["openssl", "gnutls"][ev[2]], route=ROUTES.get(ev[3], ev[3]),
             cfg_alg=NAMES[ev[4]] if ev[4] < 15 else "INVAL",
             key=keys.get(ev[5], ("?",))[0],
             key_alg_attr=("absent" if ev[6] < 0 else "unknown-string" if ev[6] == 15 else NAMES[ev[6]]),
             public_form=bool(ev[7]), setkey_rc=ev[8])
    if tag == "V":
        d.update(header_alg=hdrs.get(ev[11], "?"), signature=SIGS.get(ev[12], ev[12]), ref_valid=ev[13], rc=ev[14],
                 errflag=ev[15], msg=ev[16], hooks=ev[18])
        if len(ev) > 19:
            d["token"] = ev[19]
    elif tag == "G":
        d.update(rc=ev[11], errflag=ev[12], msg=ev[13], token_header_alg=(NAMES[ev[14]] if 0 <= ev[14] < 15 else ev[14]),
                 third_empty=ev[15], ref_valid=ev[16], shape_ok=ev[17], hooks=ev[19])
        if len(ev) > 20:
            d["token"] = ev[20]
    return d


def judge(path, prop, keys, hdrs):
    """Judge one shard log.  Returns dict(n, accepted, produced, distinct(set), viol(list of (key, what, witness)), samples, counters)."""
    out = dict(n=0, distinct=set(), viol=[], samples=[], c={})
    c = out["c"]

    def cnt(k, n=1):
        c[k] = c.get(k, 0) + n

    def viol(key, what, ev):
        if len(out["viol"]) < 200:
            out["viol"].append((key, what, describe(ev, keys, hdrs)))
        cnt("viol")

    with open(path, errors="replace") as fh:
        for line in fh:
            if not line.startswith("["):
                continue
            try:
                ev = json.loads(line)
            except Exception:
                continue
            tag = ev[0]
            if tag in ("S", "T"):
                _, idx, prov, route, cfg, ki, kalg, pub, setkey_rc, ef = ev
                if setkey_rc < 0 or route == 3:
                    continue
                key = keys[ki]
                present = key[1] != 0
                adm = table_admits(cfg, present, kalg)
                out["n"] += 1
                cnt("setkey_calls")
                if tag == "T" and present and pub:
                    # builder needs a private key: refusal expected, judged by C10; here only "never admitted"
                    if setkey_rc == 0:
                        viol("builder-setkey-admits-public-key", "jwt_builder_setkey accepted a public-only key", ev)
                    continue
                if adm is None:
                    cnt("setkey_unjudged_inval")
                    continue
                if prop == "C02":
                    out["distinct"].add((tag, cfg, key[1], key_alg_value(kalg), adm))
                    if adm and setkey_rc != 0:
                        cnt("setkey_refused_admissible")  # not a C02 violation (over-strict is C05's business)
                    if not adm and setkey_rc == 0:
                        viol("setkey-admits-outside-table:%s" % tag, "setkey admitted a key/alg pair outside the documented table", ev)
                    if (setkey_rc != 0) != bool(ef):
                        cnt("setkey_rc_vs_flag_mismatch")
                continue
            if tag == "V":
                (_, idx, prov, route, cfg, ki, kalg, pub, setkey_rc, eff_alg, eff_key, h, sk, refvalid, rc, ef, msg,
                 cbcalls, hooks) = ev[:19]
                key = keys[ki]
                out["n"] += 1
                cnt("verify")
                accepted = rc == 0
                P = pinned(eff_alg, kalg)
                adm = table_admits(eff_alg, bool(eff_key), kalg)
                if eff_key:
                    allowed = bool(adm) and 1 <= P <= 14 and h == P and bool(refvalid) and floor_ok(P, key)
                else:
                    allowed = (eff_alg == NONE and h == 0 and sk == 0)
                if accepted:
                    cnt("accepted")
                    cnt("accepted.%s.%s" % (["openssl", "gnutls"][prov], NAMES[h] if h < 15 else "hdr%d" % h))
                # hook clause: a primitive is only ever evaluated with a pinned alg and a key of its family
                for hk in hooks:
                    site, halg, hkty, hkalg, hbits = hk
                    cnt("hook." + site)
                    if prop in ("C02", "C09"):
                        if not eff_key:
                            viol("primitive-without-key", "a crypto primitive ran although no key is configured", ev)
                        elif not (1 <= P <= 14) or halg != P:
                            viol("primitive-alg-not-pinned:%s" % site, "primitive evaluated with alg %s but pinned alg is %s" % (halg, P), ev)
                        elif not kty_fits(halg, hkty):
                            viol("primitive-family-mismatch:%s:%s" % (site, FAM.get(halg)), "primitive for family %s evaluated with key kty %s" % (FAM.get(halg), hkty), ev)
                        elif not site.startswith(["openssl", "gnutls"][prov]):
                            viol("primitive-wrong-provider", "primitive of another provider ran", ev)
                        if prop == "C09" and eff_key and 1 <= halg <= 14 and not floor_ok(halg, key):
                            viol("primitive-below-floor:%s" % FAM.get(halg), "primitive evaluated with a key below the strength floor", ev)
                if prop == "C02":
                    out["distinct"].add((route, eff_alg, key[1], key_alg_value(kalg), pub, h, sk, accepted))
                    if accepted and not allowed:
                        why = ("header-alg-not-pinned" if eff_key and h != P else
                               "inadmissible-config" if eff_key and not adm else
                               "no-pinned-alg" if eff_key and not (1 <= P <= 14) else
                               "signature-not-valid" if eff_key and not refvalid else
                               "below-floor" if eff_key else "unsigned-rule")
                        viol("accept:%s:%s:key=%s:hdr=%s:sig=%s" % (why, "keyalg+explicit" if (eff_alg != NONE and key_alg_value(kalg) != NONE) else
                                                                     "explicit" if eff_alg != NONE else "keyalg" if key_alg_value(kalg) != NONE else "nopin",
                                                                     ["none", "oct", "rsa", "rsa", "ec", "okp"][key[1]],
                                                                     FAM.get(h, "none" if h == 0 else "other") if h < 15 else "variant",
                                                                     SIGS.get(sk)),
                             "verify returned 0 where the pinning model forbids acceptance", ev)
                    if allowed:
                        cnt("allowed_cells")
                        if accepted:
                            cnt("allowed_and_accepted")
                elif prop == "C03":
                    shape = ("none-exact" if h == 0 else "none-variant" if h in (16, 17, 18, 33, 45, 46) else
                             "missing-or-nonstring" if h in (27, 28, 29, 30, 31, 32) else "real-alg" if h < 15 else "other")
                    out["distinct"].add((route, bool(eff_key), eff_alg != NONE, key_alg_value(kalg) != NONE, shape, sk == 0, accepted))
                    unsigned_tok = (sk == 0) or h in (0, 16, 17, 18, 24, 33, 45, 46)
                    if sk in (6, 7, 8, 9):
                        cnt("malformed_shape_events")
                        if accepted:
                            viol("accepts-malformed-shape:%s" % SIGS[sk], "a token with a malformed third segment / segment count was accepted", ev)
                        continue
                    if eff_key:
                        cnt("keyed_checker_events")
                        if unsigned_tok:
                            cnt("keyed_checker_unsigned_tokens")
                            if accepted:
                                viol("keyed-checker-accepts-unsigned:route%d:%s:%s" % (route, shape, "sig-empty" if sk == 0 else "sig-present"),
                                     "a checker holding a key accepted a token with empty signature or alg none", ev)
                    else:
                        cnt("keyless_checker_events")
                        if accepted and not (h == 0 and sk == 0):
                            viol("keyless-checker-accepts:%s:%s" % (shape, "sig-empty" if sk == 0 else "sig-present"),
                                 "a checker without a key accepted something other than exact alg none + empty signature", ev)
                        if h == 0 and sk == 0 and eff_alg == NONE:
                            cnt("keyless_none_tokens")
                            if accepted:
                                cnt("keyless_none_accepted")
                elif prop == "C09":
                    out["distinct"].add(("V", prov, key[0], h, sk, accepted))
                    if accepted and (not eff_key or not (1 <= h <= 14) or not floor_ok(h, key)):
                        viol("verify-below-floor:%s" % (FAM.get(h, "?")), "verification succeeded with a key below the strength floor", ev)
                    # converse: proper config, valid signature, at/above the floor => must verify
                    if eff_key and adm and 1 <= P <= 14 and h == P and refvalid and floor_ok(P, key):
                        if prov == 1 and (P == 13 or (key[1] == K_EC and key[3] not in ("P-256", "P-384", "P-521"))):
                            cnt("unjudged_secp256k1_gnutls")   # GnuTLS has no secp256k1 (and not all brainpool curves): provider does not support the key
                        else:
                            cnt("at_floor_expected_accept")
                            if not accepted:
                                viol("verify-fails-at-floor:%s:%s" % (FAM.get(P), ["openssl", "gnutls"][prov]),
                                     "verification failed for a key at or above the floor with a valid signature", ev)
                    if rc != 0 and not ef:
                        cnt("fail_without_flag")
                continue
            if tag == "G":
                (_, idx, prov, route, cfg, ki, kalg, pub, setkey_rc, eff_alg, eff_key, rc, ef, msg, halg, third_empty,
                 refvalid, shape_ok, cbcalls, hooks) = ev[:20]
                key = keys[ki]
                out["n"] += 1
                cnt("generate")
                produced = rc == 0
                P = pinned(eff_alg, kalg)
                adm = table_admits(eff_alg, bool(eff_key), kalg)
                if produced:
                    cnt("produced")
                for hk in hooks:
                    site, hkalg_, hkty, hkalg, hbits = hk
                    cnt("hook." + site)
                    if prop in ("C02", "C09"):
                        if not eff_key:
                            viol("primitive-without-key", "a crypto primitive ran although no key is configured", ev)
                        elif not (1 <= P <= 14) or hkalg_ != P:
                            viol("primitive-alg-not-pinned:%s" % site, "primitive evaluated with alg %s but pinned alg is %s" % (hkalg_, P), ev)
                        elif not kty_fits(hkalg_, hkty):
                            viol("primitive-family-mismatch:%s:%s" % (site, FAM.get(hkalg_)), "primitive for family %s evaluated with key kty %s" % (FAM.get(hkalg_), hkty), ev)
                        if prop == "C09" and eff_key and 1 <= hkalg_ <= 14 and not floor_ok(hkalg_, key):
                            viol("primitive-below-floor:%s" % FAM.get(hkalg_), "primitive evaluated with a key below the strength floor", ev)
                if eff_key:
                    allowed = bool(adm) and not pub and 1 <= P <= 14 and family_fits(P, key) and floor_ok(P, key)
                else:
                    allowed = eff_alg == NONE
                if prop == "C02":
                    out["distinct"].add(("G", route, eff_alg, key[1], key_alg_value(kalg), pub, produced))
                    if produced and not allowed:
                        viol("produce:inadmissible:route%d:key=%s:%s" % (route, ["none", "oct", "rsa", "rsa", "ec", "okp"][key[1]],
                                                                       "pub" if pub else "priv"),
                             "generate returned a token where the pinning model forbids production", ev)
                    elif produced and eff_key and halg != P:
                        viol("produce:header-alg-not-pinned:route%d" % route, "generated token's header alg differs from the pinned algorithm", ev)
                    elif produced and not eff_key and halg != 0:
                        viol("produce:header-alg-not-pinned:keyless:route%d" % route, "a key-less builder's token names an algorithm (%s) although none was pinned" % halg, ev)
                    elif produced and eff_key and not refvalid:
                        viol("produce:signature-invalid", "generated token is not reference-verifiable under the pinned alg", ev)
                elif prop == "C03":
                    out["distinct"].add(("G", route, bool(eff_key), eff_alg != NONE, key_alg_value(kalg) != NONE, pub, produced, halg == 0, bool(third_empty)))
                    if produced:
                        if eff_key:
                            cnt("keyed_builder_tokens")
                            if halg == 0 or third_empty or not shape_ok:
                                viol("keyed-builder-emits-unsigned:route%d:%s" % (route, "keyalg" if key_alg_value(kalg) != NONE else "nokeyalg"),
                                     "a builder that was given a key emitted an unsigned token", ev)
                        else:
                            cnt("keyless_builder_tokens")
                            if halg != 0 or not third_empty or not shape_ok:
                                viol("keyless-builder-emits-signed", "a builder without a key emitted something other than an alg-none token ending in '.'", ev)
                elif prop == "C09":
                    out["distinct"].add(("G", prov, key[0], P, produced))
                    if produced and eff_key and not (1 <= P <= 14 and floor_ok(P, key)):
                        viol("generate-below-floor:%s" % FAM.get(P, "?"), "signing succeeded with a key below the strength floor", ev)
                    if allowed and eff_key:
                        if prov == 1 and (P == 13 or (key[1] == K_EC and key[3] not in ("P-256", "P-384", "P-521"))):
                            cnt("unjudged_secp256k1_gnutls")
                        else:
                            cnt("at_floor_expected_produce")
                            if not produced:
                                viol("generate-fails-at-floor:%s:%s" % (FAM.get(P), ["openssl", "gnutls"][prov]),
                                     "signing failed for a key at or above the floor", ev)
                    if not produced and not ef:
                        cnt("null_without_flag")
                if len(out["samples"]) < 3 and produced:
                    out["samples"].append(describe(ev, keys, hdrs))
                continue
    return out


def load_meta(paths):
    keys, hdrs = {}, {}
    for p in paths:
        with open(p, errors="replace") as fh:
            for line in fh:
                if line.startswith('["K"'):
                    ev = json.loads(line)
                    keys[ev[1]] = (ev[2], ev[3], ev[4], ev[5])
                elif line.startswith('["H"'):
                    ev = json.loads(line)
                    hdrs[ev[1]] = ev[2]
                elif line.startswith('["S"') or line.startswith('["V"') or line.startswith('["T"') or line.startswith('["G"'):
                    break
    return keys, hdrs

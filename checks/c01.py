"""C01 — no token is accepted without a valid signature by the configured key."""
import json
import vf

CLASSES = ["base", "subst-header", "subst-payload", "subst-sig", "sig-bitflip", "trunc-chars", "trunc-bytes", "extend-chars",
           "extend-bytes", "padding", "std-alphabet", "sig-from-other-payload", "sig-from-other-key", "sig-from-other-keytype",
           "sibling-alg-sig", "ecdsa-corner", "constant-sig", "empty-sig", "extra-segments", "control-bytes", "payload-swap",
           "hs-attacker-key", "header-rewrite"]


def keys_for(tier):
    if tier == "thorough":
        return "oct:32,oct:48,oct:64,oct:200,rsa:2048,rsa:3072,rsa:4096,rsapss:2048,ec:P-256,ec:P-384,ec:P-521,ec:secp256k1,okp:Ed25519,okp:Ed448"
    return "oct:64,rsa:2048,ec:P-256,ec:P-384,ec:P-521,ec:secp256k1,okp:Ed25519,okp:Ed448"


def judge(path):
    out = dict(n=0, acc=0, distinct=set(), viol=[], samples=[], c={}, cases={})
    c = out["c"]
    with open(path, errors="replace") as fh:
        for line in fh:
            if not line.startswith("["):
                continue
            try:
                ev = json.loads(line)
            except Exception:
                continue
            if ev[0] == "C":
                out["cases"][ev[1]] = ev[2:]
            elif ev[0] == "CC":
                case = out["cases"].get(ev[1])
                for ci, n in enumerate(ev[2:]):
                    if n > 0 and case:
                        out["distinct"].add((case[0], case[1], case[2], CLASSES[ci]))
                        c["class." + CLASSES[ci]] = c.get("class." + CLASSES[ci], 0) + n
            elif ev[0] == "STATS":
                out["n"] += ev[1]
                out["acc"] += ev[2]
            elif ev[0] == "SKIP":
                c["skipped_cases"] = c.get("skipped_cases", 0) + 1
            elif ev[0] == "M":
                idx, cls, variant, refvalid, rc, ef = ev[1:7]
                case = out["cases"].get(idx, ["?", "?", "?", "?", "?"])
                prov = ["openssl", "gnutls"][case[0]] if case[0] in (0, 1) else "?"
                if rc == 0:
                    c["accepted.%s.%s" % (prov, case[2])] = c.get("accepted.%s.%s" % (prov, case[2]), 0) + 1
                    if cls != 0:
                        c["accepted_mutants_refvalid"] = c.get("accepted_mutants_refvalid", 0) + (1 if refvalid else 0)
                    if not refvalid:
                        kind = case[1].split(":")[0]
                        crv = case[1].split(":")[1] if kind in ("ec", "okp") else ""
                        key = "accept-invalid:%s:%s%s:%s:%s" % (prov, kind, ("/" + crv) if crv else "", case[2], CLASSES[cls])
                        if cls == 4:   # bit flips: the byte position matters for recognising a specific known leniency
                            key += ":byte%d" % (variant // 8)
                        elif cls == 3:  # character substitution at position `variant`: first signature byte it touches
                            key += ":byte%d" % ((variant * 6 + 5) // 8)
                        out["viol"].append((key, "verify returned 0 for a token whose third segment is not a valid signature",
                                            dict(idx=idx, provider=prov, key=case[1], alg=case[2], base=["harness-signed", "libjwt-signed"][case[3]],
                                                 pin=["explicit alg", "key alg attribute"][case[4]], mutation=CLASSES[cls], variant=variant,
                                                 token=ev[7] if len(ev) > 7 else None)))
                elif refvalid and cls == 0 and prov == "gnutls" and "secp256k1" in case[1]:
                    c["unjudged_secp256k1_gnutls_base_rejected"] = c.get("unjudged_secp256k1_gnutls_base_rejected", 0) + 1
                elif refvalid and cls == 0:
                    # unmutated base token rejected: not C01's business (C05), but it voids the positive control
                    c["base_rejected"] = c.get("base_rejected", 0) + 1
                if len(out["samples"]) < 2 and cls not in (0,):
                    out["samples"].append(dict(provider=prov, key=case[1], alg=case[2], mutation=CLASSES[cls], variant=variant,
                                               ref_valid=refvalid, verify_rc=rc))
    del out["cases"]
    return out


def run(tier, seed, replay):
    rep = vf.Report("C01", tier, seed)
    rep.rule = ("for every provider x key x admissible alg x base token (harness-signed, libjwt-signed) x pin route, every mutation "
                "class is applied (all positions for short fields, sampled for RSA signatures; every single bit of EdDSA/ECDSA/HMAC "
                "signatures); distinct = distinct (provider, key, alg, mutation class) tuples that were executed; a case is "
                "non-trivial because every mutant still reaches jwt_checker_verify with a configured key")
    rep.assumptions = ["reference validity = OpenSSL EVP_DigestVerify / HMAC called directly on the harness' own key object; lenient "
                       "base64 decoding and PSS salt auto-detection make the check one-directional (accepted => valid)",
                       "forgeries that require breaking the primitive are out of reach"]
    rd = vf.run_dir("C01")
    b = vf.driver("d_c01", "asan")
    args = ["--arg1", "keys=" + keys_for(tier), "--seed", seed, "--tier", tier]
    if replay and (replay.get("witness") or {}).get("idx") is not None:
        args += ["--only", replay["witness"]["idx"]]
    outs, crashes = vf.run_shards(b, args, vf.NCPU, rd, timeout=3000)
    rep.crash_violations(crashes)
    for r in vf.pmap(judge, [(p,) for p in outs]):
        rep.evaluations += r["n"]
        rep.distinct |= r["distinct"]
        rep.count("accepted_total", r["acc"])
        for k, what, wit in r["viol"]:
            rep.violation(k, what, wit)
        for s in r["samples"]:
            rep.sample(s)
        for k, v in r["c"].items():
            rep.count(k, v)
    c = rep.counters
    if not replay:
        vf.need(rep, c.get("base_rejected", 0) == 0, "%d unmutated base tokens were rejected (positive control broken)" % c.get("base_rejected", 0))
        for prov in ("openssl", "gnutls"):
            for alg in ("HS256", "RS256", "PS256", "ES256", "ES384", "ES512", "EdDSA"):
                vf.need(rep, c.get("accepted.%s.%s" % (prov, alg), 0) > 0, "no accepted %s token on %s (positive control)" % (alg, prov))
        for cl in CLASSES:
            vf.need(rep, c.get("class." + cl, 0) > 0, "mutation class %s never executed" % cl)
    return rep

/* Harness library shared by all libjwt verification drivers. */
#ifndef VH_H
#define VH_H

#include <stdint.h>
#include <stddef.h>
#include <stdio.h>
#include <stdlib.h>
#include <string.h>
#include <time.h>
#include <jwt.h>
#include <openssl/evp.h>

/* ---- process / shard arguments ---------------------------------------- */
typedef struct {
	uint64_t seed;
	int shard, nshards;
	long start;		/* first case index to run (restart after crash) */
	long only;		/* run only this case (-1: all) */
	const char *tier;	/* "quick" | "thorough" */
	int thorough;
	const char *mode;	/* driver specific */
	long n;			/* driver specific count */
	const char *arg1;
	const char *arg2;
} vh_args_t;
void vh_parse_args(int argc, char **argv, vh_args_t *a);
/* should case idx be run by this shard? */
static inline int vh_mine(const vh_args_t *a, long idx)
{
	if (a->only >= 0)
		return idx == a->only;
	return idx >= a->start && (idx % a->nshards) == a->shard;
}

/* ---- crash isolation -------------------------------------------------- */
/* Record the case in flight; printed as "@@CRASH {json}" if the process dies. */
void vh_case_begin(long idx, const char *fmt, ...) __attribute__((format(printf, 2, 3)));
void vh_install_death_handler(void);
void vh_harness_fail(const char *fmt, ...) __attribute__((format(printf, 1, 2), noreturn));

/* ---- PRNG ------------------------------------------------------------- */
typedef struct { uint64_t s[4]; } vh_rng_t;
void vh_rng_seed(vh_rng_t *r, uint64_t seed, uint64_t stream);
uint64_t vh_rand(vh_rng_t *r);
static inline uint64_t vh_below(vh_rng_t *r, uint64_t n) { return n ? vh_rand(r) % n : 0; }
void vh_rand_bytes(vh_rng_t *r, unsigned char *buf, size_t n);

/* ---- output helpers (JSONL on stdout) ---------------------------------- */
void vh_put_jstr(FILE *f, const char *s);		/* JSON string, bytes >=0x80 and controls escaped as \u00XX */
void vh_put_jstrn(FILE *f, const char *s, size_t n);
void vh_put_hex(FILE *f, const void *p, size_t n);	/* "hex" */

/* ---- reference base64url (arithmetic, independent of libjwt) ----------- */
size_t vh_b64u_enc(const unsigned char *in, size_t n, char *out);	/* out needs 4*(n/3)+5; NUL terminated; unpadded */
char *vh_b64u_enc_dup(const void *in, size_t n);
/* lenient decode of s[0..n): stops at first '='; accepts both alphabets;
 * returns -1 if a foreign byte occurs before '=' or len%4==1, else #bytes.  */
long vh_b64u_dec(const char *s, size_t n, unsigned char *out);

/* ---- algorithms ---------------------------------------------------------- */
#define VH_NALG 15			/* JWT_ALG_NONE .. JWT_ALG_EDDSA */
const char *vh_alg_name(int alg);	/* own table, not jwt_alg_str */
typedef enum { VH_FAM_NONE = 0, VH_FAM_HS, VH_FAM_RS, VH_FAM_PS, VH_FAM_ES, VH_FAM_ED } vh_fam_t;
vh_fam_t vh_alg_family(int alg);
const EVP_MD *vh_alg_md(int alg);
int vh_alg_ecbits(int alg);		/* 256/384/521, 0 if not ES */

/* ---- key zoo -------------------------------------------------------------- */
typedef enum { VH_K_OCT = 1, VH_K_RSA, VH_K_RSAPSS, VH_K_EC, VH_K_OKP } vh_kind_t;
typedef struct {
	char name[32];
	vh_kind_t kind;
	int bits;		/* oct: 8*len; RSA: modulus bits; EC: field bits; OKP: 256/456 */
	char crv[16];		/* JWK crv ("P-256", "secp256k1", "Ed25519", ...) */
	EVP_PKEY *pkey;		/* NULL for oct */
	unsigned char *oct;
	size_t octlen;
	int padmode;		/* oct only: 1 = JWK "k" written with '=' padding, 2 = padding followed by further characters */
} vh_key_t;

/* generate; returns 0 on success.  spec: "oct:<len>", "octpad:<len>" / "octjunk:<len>" (same key, non-canonical spelling of k in the JWK), "rsa:<bits>", "rsapss:<bits>",
 * "ec:P-256|P-384|P-521|secp256k1", "okp:Ed25519|Ed448|X25519" */
int vh_key_gen(vh_key_t *k, const char *spec, vh_rng_t *r);
void vh_key_free(vh_key_t *k);
/* JWK text written by the harness itself.  alg may be NULL; kid may be NULL;
 * extra: raw JSON members (e.g. "\"use\":\"sig\"") or NULL; pad: leading zero bytes to add to integers */
char *vh_key_jwk(const vh_key_t *k, int priv, const char *alg, const char *kid, const char *extra);
/* load into libjwt under the *current* provider; returns item (owned by *set) */
const jwk_item_t *vh_key_load(const vh_key_t *k, int priv, const char *alg, jwk_set_t **set);
extern const char *vh_load_kid;
/* tracking allocator: foreign frees and writes after free inside uninstrumented libraries (single-threaded drivers only) */
void vh_alloc_install(void);
void vh_alloc_checkpoint(void);
long vh_alloc_live(void);
void vh_alloc_leak(long before, const char *what);	/* aborts like a sanitizer report if the live count moved */
void vh_lib_free(void *p);			/* release library-returned memory (tokens, JSON text) through the installed allocator */
extern unsigned long vh_alloc_blocks, vh_alloc_checked;

/* ---- reference crypto (OpenSSL directly) ---------------------------------- */
/* sign msg with key for alg; returns malloc'd raw JWS signature (ES: r||s), NULL on failure */
unsigned char *vh_ref_sign(const vh_key_t *k, int alg, const void *msg, size_t n, size_t *siglen);
/* 1 valid, 0 invalid (family mismatch, bad length, bad signature) */
int vh_ref_verify(const vh_key_t *k, int alg, const void *msg, size_t n, const unsigned char *sig, size_t siglen);
/* HMAC with arbitrary key bytes */
void vh_ref_hmac(int alg, const void *key, size_t keylen, const void *msg, size_t n, unsigned char *out, size_t *outlen);
/* build token "b64u(hdr).b64u(pl).b64u(sig)" signed by the harness; alg none -> "h.p." */
char *vh_ref_token(const vh_key_t *k, int alg, const char *hdr_json, const char *payload_json);
/* reference judgement of a whole token string against key k:
 *  returns 1 iff token = A.B.C (split at first two dots), header (decoded by the
 *  reference codec) names alg (written to *alg_out), C decodes (lenient) to a valid signature over "A.B" */
int vh_ref_token_valid(const vh_key_t *k, const char *token, int *alg_out);

/* ---- provider -------------------------------------------------------------- */
#define VH_NPROV 2
const char *vh_prov_name(int i);	/* 0 openssl, 1 gnutls */
void vh_set_prov(int i);		/* aborts (harness failure) if it cannot be set */

/* ---- primitive hook (requires -DLIBJWT_VERIF build of libjwt) -------------- */
typedef struct { char site[32]; int alg; int kty; int key_alg; int bits; int is_priv; } vh_hookrec_t;
void vh_hook_install(void);
int vh_hook_drain(vh_hookrec_t *out, int max);	/* returns number of records since last drain (this thread) */
void vh_put_hooks(FILE *f, int keyed);		/* drains and prints ,"hooks":[...] (keyed) or ,[...] */

/* ---- fake clock (link vh_clock.c) ------------------------------------------ */
extern time_t vh_now, vh_tick;

#endif

/* C10 (and C13's builder half): histories of builder configuration calls interleaved with generate at
 * harness-controlled clock values.  Every call is logged; the builder model lives in checks/c10.py.
 *   ["K", name, kind, hex]                                       key material (oct bytes) for the Python HMAC oracle
 *   ["N", hist]                                                   new builder
 *   ["S", hist, which(h|c), type, name, value, replace, rc]       header/claim set   (value as JSON text of the value)
 *   ["D", hist, which, name, rc]                                  header/claim del
 *   ["I", hist, enable, ret]                                      enable_iat
 *   ["T", hist, claim, secs, rc]                                  time_offset
 *   ["Y", hist, keyname|null, alg, rc]                            setkey
 *   ["B", hist, script|null]                                      setcb (script = list of callback ops, see cb_ops)
 *   ["G", hist, now, token|null, errflag, msg_nonempty, hdr_before, clm_before, hdr_after, clm_after, ref_valid, cb_ran]
 */
#include "vh.h"
#include <inttypes.h>

static vh_rng_t rng;
#define NK 5
static vh_key_t K[NK];
static const char *KSPEC[NK] = { "oct:32", "oct:64", "ec:P-256", "okp:Ed25519", "rsa:2048" };
static const int KALG[NK] = { JWT_ALG_HS256, JWT_ALG_HS512, JWT_ALG_ES256, JWT_ALG_EDDSA, JWT_ALG_PS256 };
static jwk_set_t *kset;
static const jwk_item_t *KPRIV[NK], *KPUB[NK];

/* ---- callback scripts --------------------------------------------------- */
typedef struct { char which; char kind; const char *name; int type; const char *sval; long ival; } cbop_t;	/* kind S set-replace, A add (no replace), D del */
typedef struct { int n; cbop_t op[6]; int ret; int pick_pub; int pick_key; } script_t;	/* pick_key: 0 none, k+1: sign this token with K[k]/KALG[k] */
static script_t cur_script;
static int cb_ran;
static const jwk_item_t *cb_pubkey;

static script_t *g_script;	/* callbacks registered with a NULL context use this */
static int the_cb(jwt_t *jwt, jwt_config_t *cfg)
{
	script_t *s = cfg->ctx ? cfg->ctx : g_script;
	cb_ran++;
	for (int i = 0; i < s->n; i++) {
		cbop_t *o = &s->op[i];
		jwt_value_t v;
		if (o->kind == 'D') {
			if (o->which == 'h') jwt_header_del(jwt, o->name); else jwt_claim_del(jwt, o->name);
			continue;
		}
		switch (o->type) {
		case JWT_VALUE_INT: jwt_set_SET_INT(&v, o->name, o->ival); break;
		case JWT_VALUE_BOOL: jwt_set_SET_BOOL(&v, o->name, (int)o->ival); break;
		case JWT_VALUE_JSON: jwt_set_SET_JSON(&v, o->name, (char *)o->sval); break;
		default: jwt_set_SET_STR(&v, o->name, o->sval); break;
		}
		v.replace = o->kind == 'S';
		if (o->which == 'h') jwt_header_set(jwt, &v); else jwt_claim_set(jwt, &v);
	}
	if (s->pick_pub) cfg->key = cb_pubkey;
	if (s->pick_key) { cfg->key = KPRIV[s->pick_key - 1]; cfg->alg = (jwt_alg_t)KALG[s->pick_key - 1]; }
	return s->ret;
}

static const char *NAMES_H[] = { "typ", "alg", "kid", "cty", "x", "crit" };
static const char *NAMES_C[] = { "iat", "nbf", "exp", "iss", "sub", "n", "data" };
static const char *STRV[] = { "JWT", "none", "HS256", "at+jwt", "", "\xc3\xa9", "value",
	"ES256K", "ES256", "ES384", "ES512", "RS256", "PS256", "EdDSA", "HS384", "HS512", "HS256x", "HS2560", "hs256", "ES25", "ES", "RS2566", "PS256 ", "EdDSAx", "ES256KK" };
#define NSTRV 25
static const char *JSONV[] = { "{\"a\":1}", "[1,2]", "{}", "[\"HS256\"]", "{\"alg\":\"none\"}",
	/* reals that need all 17 significant digits, integers beyond 2^53, exponents */
	"{\"r\":0.30000000000000004,\"t\":0.1}", "[9007199254740993,9007199254740992.0,1e15,1000000000000000.5]", "{\"pi\":3.141592653589793,\"third\":0.3333333333333333,\"tiny\":5e-324,\"big\":1.7976931348623157e308}",
	/* values the builder refuses (truncated, scalar, empty, trailing text): a refused set changes nothing, also when it was to replace */
	"{\"a\":", "[1,2", "", "[1,2] x" };
#define NJSONV 12
static const long INTV[] = { 0, 1, -1, 1700000000L, INT64_MAX, INT64_MIN, 256 };

static void put_value_text(int type, const char *sval, long ival)
{
	char buf[64];
	switch (type) {
	case JWT_VALUE_INT: snprintf(buf, sizeof(buf), "%ld", ival); vh_put_jstr(stdout, buf); break;
	case JWT_VALUE_BOOL: vh_put_jstr(stdout, ival ? "true" : "false"); break;
	case JWT_VALUE_JSON: vh_put_jstr(stdout, sval); break;
	default: {	/* JSON text of the string: the STRV strings need only quote wrapping */
		char t[128]; snprintf(t, sizeof(t), "\"%s\"", sval); vh_put_jstr(stdout, t);
	}
	}
}

static void snap(jwt_builder_t *b, int hdr)
{
	jwt_value_t v;
	jwt_set_GET_JSON(&v, NULL);
	if ((hdr ? jwt_builder_header_get(b, &v) : jwt_builder_claim_get(b, &v)) == JWT_VALUE_ERR_NONE && v.json_val) {
		vh_put_jstr(stdout, v.json_val); free(v.json_val);
	} else fputs("null", stdout);
}

static void pick_value(int *type, const char **sval, long *ival)
{
	*type = 1 + (int)vh_below(&rng, 4);
	*sval = NULL; *ival = 0;
	switch (*type) {
	case JWT_VALUE_INT: *ival = INTV[vh_below(&rng, 7)]; break;
	case JWT_VALUE_BOOL: *ival = (long)vh_below(&rng, 2); break;
	case JWT_VALUE_JSON: *sval = JSONV[vh_below(&rng, NJSONV)]; break;
	default: *sval = STRV[vh_below(&rng, 2) ? vh_below(&rng, 7) : vh_below(&rng, NSTRV)]; break;
	}
}

static void op_set(long h, jwt_builder_t *b)
{
	int hdr = (int)vh_below(&rng, 2), type, replace = (int)vh_below(&rng, 2);
	const char *name = hdr ? NAMES_H[vh_below(&rng, 6)] : NAMES_C[vh_below(&rng, 7)], *sval;
	long ival;
	jwt_value_t v;
	int rc;
	pick_value(&type, &sval, &ival);
	switch (type) {
	case JWT_VALUE_INT: jwt_set_SET_INT(&v, name, ival); break;
	case JWT_VALUE_BOOL: jwt_set_SET_BOOL(&v, name, (int)ival); break;
	case JWT_VALUE_JSON: jwt_set_SET_JSON(&v, name, (char *)sval); break;
	default: jwt_set_SET_STR(&v, name, sval); break;
	}
	v.replace = replace;
	rc = hdr ? jwt_builder_header_set(b, &v) : jwt_builder_claim_set(b, &v);
	printf("[\"S\",%ld,\"%c\",%d,\"%s\",", h, hdr ? 'h' : 'c', type, name);
	put_value_text(type, sval, ival);
	printf(",%d,%d]\n", replace, rc);
}
static void op_del(long h, jwt_builder_t *b)
{
	int hdr = (int)vh_below(&rng, 2), all = vh_below(&rng, 8) == 0;
	const char *name = all ? NULL : hdr ? NAMES_H[vh_below(&rng, 6)] : NAMES_C[vh_below(&rng, 7)];
	int rc = hdr ? jwt_builder_header_del(b, name) : jwt_builder_claim_del(b, name);
	printf("[\"D\",%ld,\"%c\",", h, hdr ? 'h' : 'c'); vh_put_jstr(stdout, name); printf(",%d]\n", rc);
}
static void op_iat(long h, jwt_builder_t *b)
{
	int en = (int)vh_below(&rng, 3) == 0 ? 7 : (int)vh_below(&rng, 2);
	int ret = jwt_builder_enable_iat(b, en);
	printf("[\"I\",%ld,%d,%d]\n", h, en, ret);
}
static void op_offset(long h, jwt_builder_t *b)
{
	static const int64_t OFF[] = { 0, -1, -100, 1, 60, 3600, 2147483648LL, 1099511627776LL };
	static const int CL[] = { JWT_CLAIM_EXP, JWT_CLAIM_NBF, JWT_CLAIM_EXP, JWT_CLAIM_NBF, JWT_CLAIM_IAT, JWT_CLAIM_ISS };
	int cl = CL[vh_below(&rng, 6)];
	int64_t s = vh_below(&rng, 9) == 8 ? (int64_t)vh_below(&rng, 1ULL << 33) : OFF[vh_below(&rng, 8)];
	int rc = jwt_builder_time_offset(b, (jwt_claims_t)cl, (time_t)s);
	printf("[\"T\",%ld,%d,%" PRId64 ",%d]\n", h, cl, s, rc);
}
static void op_setkey(long h, jwt_builder_t *b)
{
	int k = (int)vh_below(&rng, NK + 2) - 1;	/* -1: none ; NK: public key of an asymmetric key */
	int rc;
	if (k < 0) { rc = jwt_builder_setkey(b, JWT_ALG_NONE, NULL); printf("[\"Y\",%ld,null,0,%d]\n", h, rc); return; }
	if (k >= NK) {
		int kk = 2 + (int)vh_below(&rng, 3);
		rc = jwt_builder_setkey(b, (jwt_alg_t)KALG[kk], KPUB[kk]);
		printf("[\"Y\",%ld,\"pub:%s\",%d,%d]\n", h, KSPEC[kk], KALG[kk], rc);
		return;
	}
	rc = jwt_builder_setkey(b, (jwt_alg_t)KALG[k], KPRIV[k]);
	printf("[\"Y\",%ld,\"%s\",%d,%d]\n", h, KSPEC[k], KALG[k], rc);
}
static void op_setcb(long h, jwt_builder_t *b)
{
	script_t *s = &cur_script;
	if (vh_below(&rng, 4) == 0) {
		jwt_builder_setcb(b, NULL, NULL);
		printf("[\"B\",%ld,null]\n", h);
		return;
	}
	memset(s, 0, sizeof(*s));
	s->n = (int)vh_below(&rng, 5);
	{	/* non-zero return values of every width */
		static const int RV[] = { 1, -1, 2, 255, 256, -256, 512, 65536, -65536, 16777216, INT32_MIN, INT32_MAX, 128, -128, 0x7fffff00, 0x40000000 };
		s->ret = vh_below(&rng, 8) == 0 ? RV[vh_below(&rng, 16)] : 0;
	}
	s->pick_pub = vh_below(&rng, 10) == 0;
	s->pick_key = (!s->pick_pub && vh_below(&rng, 4) == 0) ? 1 + (int)vh_below(&rng, NK) : 0;
	printf("[\"B\",%ld,{\"ret\":%d,\"pick_pub\":%d,\"pick_key\":%d,\"pick_alg\":%d,\"ops\":[", h, s->ret, s->pick_pub, s->pick_key, s->pick_key ? KALG[s->pick_key - 1] : 0);
	for (int i = 0; i < s->n; i++) {
		cbop_t *o = &s->op[i];
		o->which = vh_below(&rng, 2) ? 'h' : 'c';
		o->kind = "SAD"[vh_below(&rng, 3)];
		o->name = o->which == 'h' ? NAMES_H[vh_below(&rng, 6)] : NAMES_C[vh_below(&rng, 7)];
		if (o->kind == 'D' && vh_below(&rng, 6) == 0) o->name = NULL;
		pick_value(&o->type, &o->sval, &o->ival);
		printf("%s[\"%c\",\"%c\",", i ? "," : "", o->which, o->kind);
		vh_put_jstr(stdout, o->name);
		printf(",");
		if (o->kind == 'D') fputs("null", stdout); else put_value_text(o->type, o->sval, o->ival);
		printf("]");
	}
	printf("]}]\n");
	g_script = s;
	jwt_builder_setcb(b, the_cb, (h & 1) ? s : NULL);	/* every second history registers its callback without a context */
}
static void op_generate(long h, jwt_builder_t *b, const jwk_item_t *curkey_unused)
{
	static const int64_t NOWS[] = { 0, 1, 2147483648LL, 1700000000LL, 1099511627776LL, -1, -2, 2147483647LL };	/* -1: also time()'s error value, still a reading */
	int64_t now = vh_below(&rng, 9) == 8 ? (int64_t)vh_below(&rng, 1ULL << 41) : NOWS[vh_below(&rng, 8)];
	char *tok;
	int refvalid = -1;
	(void)curkey_unused;
	printf("[\"G\",%ld,%" PRId64 ",", h, now);
	vh_now = (time_t)now;
	/* a third of the generates run on a clock that advances with every reading: iat, nbf and exp must come from one reading */
	vh_tick = vh_below(&rng, 3) == 0 ? (time_t)(1 + vh_below(&rng, 3600)) : 0;
	cb_ran = 0;
	{
		/* snapshots before */
		char *hb, *cb2;
		jwt_value_t v;
		jwt_set_GET_JSON(&v, NULL); jwt_builder_header_get(b, &v); hb = v.json_val;
		jwt_set_GET_JSON(&v, NULL); jwt_builder_claim_get(b, &v); cb2 = v.json_val;
		jwt_builder_error_clear(b);
		tok = jwt_builder_generate(b);
		vh_tick = 0;
		vh_put_jstr(stdout, tok);
		printf(",%d,%d,", jwt_builder_error(b), jwt_builder_error_msg(b)[0] != 0);
		vh_put_jstr(stdout, hb); printf(","); vh_put_jstr(stdout, cb2); printf(",");
		free(hb); free(cb2);
	}
	snap(b, 1); printf(","); snap(b, 0);
	if (tok) {
		refvalid = 0;
		for (int k = 0; k < NK; k++)
			if (vh_ref_token_valid(&K[k], tok, NULL)) refvalid = 1 + k;
	}
	printf(",%d,%d]\n", refvalid, cb_ran);
	free(tok);
}

static void history(long h, int len)
{
	jwt_builder_t *b = jwt_builder_new();
	if (!b) vh_harness_fail("builder_new");
	printf("[\"N\",%ld]\n", h);
	for (int i = 0; i < len; i++) {
		switch (vh_below(&rng, 16)) {
		case 0: case 1: case 2: case 3: op_set(h, b); break;
		case 4: op_del(h, b); break;
		case 5: op_iat(h, b); break;
		case 6: case 7: op_offset(h, b); break;
		case 8: case 9: op_setkey(h, b); break;
		case 10: op_setcb(h, b); break;
		default: op_generate(h, b, NULL); break;
		}
	}
	op_generate(h, b, NULL);
	jwt_builder_free(b);
}

int main(int argc, char **argv)
{
	vh_args_t a;
	vh_parse_args(argc, argv, &a);
	vh_alloc_install();	/* foreign frees and writes after free, also inside the uninstrumented JSON library */
	vh_rng_seed(&rng, a.seed, 5);
	for (int k = 0; k < NK; k++) {
		if (vh_key_gen(&K[k], KSPEC[k], &rng)) vh_harness_fail("keygen");
		KPRIV[k] = vh_key_load(&K[k], 1, NULL, &kset);
		KPUB[k] = K[k].kind == VH_K_OCT ? NULL : vh_key_load(&K[k], 0, NULL, &kset);
		if (a.shard == 0 && a.start == 0 && K[k].kind == VH_K_OCT) {
			printf("[\"K\",\"%s\",%d,", KSPEC[k], KALG[k]); vh_put_hex(stdout, K[k].oct, K[k].octlen); printf("]\n");
		}
	}
	cb_pubkey = KPUB[2];
	if (!strcmp(a.mode, "size")) {
		/* size sweep: one string claim grows so that header.payload (the signing input) and the token take every length in a window
		 * around the sizes an implementation plausibly uses for fixed buffers; three header lengths cover every residue mod 4 */
		static const int M[] = { 64, 128, 256, 512, 1000, 1024, 2048, 4096, 8192, 16384, 65536 };
		static const char *HX[3] = { NULL, "1", "12" };
		long h = 5000000;
		for (size_t mi = 0; mi < sizeof(M) / sizeof(M[0]); mi++)
			for (int kk = 0; kk < 3; kk++)		/* unsigned, HS256, ES256 */
				for (int hx = 0; hx < 3; hx++)
					for (int d = -9; d <= 9; d++, h++) {
						/* payload {"data":"x*N"} is N+11 bytes; N such that 4/3 of it lands around M minus the header part (19..40 chars) */
						long N = ((long)(M[mi] - 30) * 3) / 4 - 11 + d;
						jwt_builder_t *b;
						jwt_value_t v;
						char *s;
						int rc;
						if (N < 0 || !vh_mine(&a, h)) continue;
						if (M[mi] > 8192 && kk != (int)(mi % 3)) continue;
						vh_case_begin(h, "\"mode\":\"size\",\"N\":%ld", N);
						vh_set_prov((int)(h & 1));
						b = jwt_builder_new();
						printf("[\"N\",%ld]\n", h);
						rc = jwt_builder_enable_iat(b, 0); printf("[\"I\",%ld,0,%d]\n", h, rc);
						if (kk) {
							int k = kk == 1 ? 0 : 2;
							rc = jwt_builder_setkey(b, (jwt_alg_t)KALG[k], KPRIV[k]);
							printf("[\"Y\",%ld,\"%s\",%d,%d]\n", h, KSPEC[k], KALG[k], rc);
						}
						if (HX[hx]) {
							jwt_set_SET_STR(&v, "x", HX[hx]); rc = jwt_builder_header_set(b, &v);
							printf("[\"S\",%ld,\"h\",%d,\"x\",\"\\\"%s\\\"\",0,%d]\n", h, JWT_VALUE_STR, HX[hx], rc);
						}
						s = malloc((size_t)N + 3); s[0] = '"'; memset(s + 1, 'x', (size_t)N); s[N + 1] = 0;
						jwt_set_SET_STR(&v, "data", s + 1); rc = jwt_builder_claim_set(b, &v);
						s[N + 1] = '"'; s[N + 2] = 0;
						printf("[\"S\",%ld,\"c\",%d,\"data\",", h, JWT_VALUE_STR); vh_put_jstr(stdout, s); printf(",0,%d]\n", rc);
						free(s);
						op_generate(h, b, NULL);
						jwt_builder_free(b);
					}
		goto done;
	}
	for (long h = 0; h < a.n; h++) {
		if (!vh_mine(&a, h)) continue;
		vh_rng_seed(&rng, a.seed, 4000000 + (uint64_t)h);
		vh_case_begin(h, "\"history\":%ld", h);
		vh_set_prov((int)(h & 1));
		history(h, 3 + (int)vh_below(&rng, 14));
	}
done:
	jwks_free(kset);
	for (int k = 0; k < NK; k++) vh_key_free(&K[k]);
	return 0;
}

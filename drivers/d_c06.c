/* C06: arbitrary token bytes through jwt_checker_verify under ASan/UBSan/LSan.
 * modes: gen    (grammar-derived near-valid tokens and random bytes, --n cases)
 *        corpus (every file in directory --arg1 is one token)
 * Every token is shown to 22 checkers (2 providers x {no key, HS256, RS256, ES256, Ed25519, PS256, ES384, ES512, ES256K, Ed448 public keys}) that all carry a
 * reading callback.  Accepted tokens are logged in full (the offline classifier asserts accepted => not definitely
 * malformed); a thin sample of rejected ones is logged for the evidence.
 * With -DVH_FUZZ_MAIN the same harness is a libFuzzer target.
 */
#include "vh.h"
#include <dirent.h>

#define NKEYS 10
#define NCHK (2 * (NKEYS + 1))
static jwt_checker_t *CHK[NCHK];
static int CHK_PROV[NCHK];
static vh_key_t K[NKEYS];
static jwk_set_t *sets[2];
static const char *KSPEC[NKEYS] = { "oct:40", "rsa:2048", "ec:P-256", "okp:Ed25519", "rsa:2048", "ec:P-384", "ec:P-521", "ec:secp256k1", "okp:Ed448", "ec:secp256k1" };
static const int KALG[NKEYS] = { JWT_ALG_HS256, JWT_ALG_RS256, JWT_ALG_ES256, JWT_ALG_EDDSA, JWT_ALG_PS256, JWT_ALG_ES384, JWT_ALG_ES512, JWT_ALG_ES256K, JWT_ALG_EDDSA, JWT_ALG_ES256 /* a 256-bit curve GnuTLS cannot import: error path */ };
static vh_rng_t rng;
static unsigned long n_tokens, n_verify, n_accept, cb_calls;
static unsigned long gen_class[32];

static int read_cb(jwt_t *jwt, jwt_config_t *cfg)
{
	jwt_value_t v;
	(void)cfg;
	cb_calls++;
	jwt_set_GET_JSON(&v, NULL);
	if (jwt_header_get(jwt, &v) == JWT_VALUE_ERR_NONE) vh_lib_free(v.json_val);
	jwt_set_GET_JSON(&v, NULL);
	v.pretty = 1;
	if (jwt_claim_get(jwt, &v) == JWT_VALUE_ERR_NONE) vh_lib_free(v.json_val);
	jwt_set_GET_STR(&v, "kid"); jwt_header_get(jwt, &v);
	jwt_set_GET_STR(&v, "alg"); jwt_header_get(jwt, &v);
	jwt_set_GET_INT(&v, "exp"); jwt_claim_get(jwt, &v);
	jwt_set_GET_BOOL(&v, "admin"); jwt_claim_get(jwt, &v);
	jwt_set_GET_JSON(&v, "nested"); if (jwt_claim_get(jwt, &v) == JWT_VALUE_ERR_NONE) vh_lib_free(v.json_val);
	(void)jwt_get_alg(jwt);
	return 0;
}

static void setup(uint64_t seed)
{
	/* the application's own allocator (jwt_set_alloc): every block it hands out during a verification has to come back through it */
#ifndef VH_FUZZ_MAIN
	vh_alloc_install();	/* (the fuzz target runs without it: its budget is executions per second) */
#endif
	vh_rng_seed(&rng, seed, 4242);
	for (int i = 0; i < NKEYS; i++)
		if (vh_key_gen(&K[i], KSPEC[i], &rng)) vh_harness_fail("keygen");
	for (int p = 0; p < 2; p++) {
		vh_set_prov(p);
		for (int j = 0; j <= NKEYS; j++) {
			jwt_checker_t *c = jwt_checker_new();
			if (!c) vh_harness_fail("checker_new");
			if (j > 0) {
				const jwk_item_t *it = vh_key_load(&K[j - 1], j == 1, NULL, &sets[p]);
				if (!it || jwt_checker_setkey(c, (jwt_alg_t)KALG[j - 1], it)) vh_harness_fail("setkey");
			}
			jwt_checker_setcb(c, read_cb, NULL);
			jwt_checker_claim_set(c, JWT_CLAIM_ISS, "c06");
			CHK[p * (NKEYS + 1) + j] = c;
			CHK_PROV[p * (NKEYS + 1) + j] = p;
		}
	}
}
static void teardown(void)
{
	for (int i = 0; i < NCHK; i++) jwt_checker_free(CHK[i]);
	for (int p = 0; p < 2; p++) jwks_free(sets[p]);
	for (int i = 0; i < NKEYS; i++) vh_key_free(&K[i]);
}

/* run one NUL-terminated token through all checkers; returns bitmask of accepting checkers */
static unsigned run_token(const char *tok, int log_all, int cls)
{
	unsigned mask = 0;
	size_t n = strlen(tok);
	char *copy = malloc(n + 1);	/* exact-size heap copy so ASan sees over-reads */
	memcpy(copy, tok, n + 1);
	long live0 = vh_alloc_live();
	n_tokens++;
	for (int i = 0; i < NCHK; i++) {
		int rc;
		vh_set_prov(CHK_PROV[i]);
		rc = jwt_checker_verify(CHK[i], copy);
		n_verify++;
		/* bits 29-31 are C14's business; recorded only */
		if (rc == 0) { mask |= 1u << i; n_accept++; if (jwt_checker_error(CHK[i]) || jwt_checker_error_msg(CHK[i])[0]) mask |= 1u << 29; }
		else if (!jwt_checker_error(CHK[i])) mask |= 1u << 31;
		else if (!jwt_checker_error_msg(CHK[i])[0]) mask |= 1u << 30;
		jwt_checker_error_clear(CHK[i]);
	}
	/* whether accepted or refused, a verification keeps nothing: what it took from the installed allocator is back (the first tokens may
	 * leave lazily created state behind) */
	if (n_tokens > 3) vh_alloc_leak(live0, "the verification of one token by every checker");
	if (mask || log_all || (n_tokens % 499) == 0) {
		printf("[\"T\",%d,%u,", cls, mask);
		vh_put_hex(stdout, copy, n);
		printf("]\n");
	}
	free(copy);
	return mask;
}

#ifdef VH_FUZZ_MAIN
int LLVMFuzzerInitialize(int *argc, char ***argv)
{
	(void)argc; (void)argv;
	setup(1);
	freopen("/dev/null", "w", stdout);
	return 0;
}
int LLVMFuzzerTestOneInput(const uint8_t *data, size_t size)
{
	char *s = malloc(size + 1);
	memcpy(s, data, size);
	s[size] = 0;
	for (size_t i = 0; i < size; i++) if (!s[i]) { s[i] = 0; break; }
	run_token(s, 0, 31);
	free(s);
	return 0;
}
#else

/* ---- generators ------------------------------------------------------------------ */
static const char *HDRS[] = {
	"{\"alg\":\"%s\",\"typ\":\"JWT\"}", "{\"typ\":\"JWT\",\"alg\":\"%s\"}", "{\"alg\":\"%s\"}", "{\"alg\":\"%s\",\"kid\":\"k1\",\"x\":[1,2,{\"y\":null}]}",
	"{\"alg\" : \"%s\" }", " {\"alg\":\"%s\"}", "{\"alg\":\"%s\"} ", "{\"alg\":\"%s\",\"alg\":\"none\"}", "{\"alg\":\"none\",\"alg\":\"%s\"}",
	/* registered header parameter names with values of every JSON type (a reader that assumes a string must not trip) */
	"{\"alg\":\"%s\",\"crv\":7,\"kid\":[1],\"typ\":{\"a\":1},\"crit\":true,\"cty\":1.5}",
	"{\"alg\":\"%s\",\"crv\":null,\"kid\":null,\"typ\":null,\"crit\":null,\"jwk\":null,\"x5c\":null,\"epk\":null}",
	"{\"alg\":\"%s\",\"crv\":[\"Ed25519\"],\"kid\":{\"k\":1},\"typ\":false,\"crit\":\"exp\",\"jwk\":7,\"x5c\":\"\",\"zip\":[],\"kty\":1,\"use\":2,\"key_ops\":\"sign\",\"k\":3,\"x\":4,\"d\":5}",
};
static const char *BADHDRS[] = { "{\"typ\":\"JWT\"}", "{\"alg\":256}", "{\"alg\":null}", "{\"alg\":[\"HS256\"]}", "{\"alg\":\"XX\"}", "{\"alg\":\"hs256\"}",
	"[\"alg\",\"HS256\"]", "\"HS256\"", "123", "", "{", "{\"alg\":\"HS256\"", "{\"alg\":\"HS256\",}", "{'alg':'HS256'}", "null", "{\"alg\":\"HS256\"}x",
	"{\"alg\":\"HS256\\u0000\"}", "{\"alg\":\"\"}", "{\"alg\":true}", "{\"alg\":\"%s%s%s%s%n\"}", "{\"alg\":\"HS256\",\"typ\":\"%n%n%s\",\"kid\":\"%999999d\"}" };
static const char *PAYLOADS[] = { "{\"iss\":\"c06\"}", "{\"iss\":\"c06\",\"exp\":99999999999,\"admin\":true,\"nested\":{\"a\":[1,2,3]}}",
	"{\"iss\":\"c06\",\"nbf\":0,\"sub\":\"\\u00e9\\ud83d\\ude00\"}", "{\"iss\":\"c06\",\"exp\":1}", "{\"iss\":\"other\"}", "{}",
	"{\"iss\":\"c06\",\"exp\":\"soon\"}", "{\"iss\":\"c06\",\"n\":1e400}", "{\"iss\":\"c06\",\"n\":-9223372036854775808}",
	"{\"iss\":\"c06\",\"exp\":-9223372036854775808,\"nbf\":-9223372036854775807}", "{\"iss\":\"c06\",\"exp\":9223372036854775807,\"nbf\":9223372036854775807}",
	"{\"iss\":\"c06\",\"exp\":1e308,\"nbf\":-1e308}", "{\"iss\":\"c06\",\"exp\":1.5,\"nbf\":true,\"iat\":null}" };
static const char *BADPAYLOADS[] = { "", "[", "{\"iss\":\"c06\"", "{\"iss\":\"c06\",}", "nul", "{\"a\":\"\\x\"}", "{\"a\":\"\\ud800\"}", "{\"iss\":\"c06\"}}",
	"\"str\"", "12", "true", "null", "[1,2]", "{\"a\":\"\x80\"}", "{\"iss\":\"c06\"}\x01", "{\"a\":18446744073709551616}" };

static char *make_valid(int kidx, const char *hdr_fmt, const char *payload)
{
	char hdr[256];
	int alg = kidx < 0 ? JWT_ALG_NONE : KALG[kidx];
	snprintf(hdr, sizeof(hdr), hdr_fmt, vh_alg_name(alg));
	return vh_ref_token(kidx < 0 ? NULL : &K[kidx], alg, hdr, payload);
}
static char *token_from_parts(const char *hdr, size_t hl, const char *pl, size_t pll, int kidx)
{
	/* sign whatever bytes we got with the right key so that only the malformation decides */
	char *h64 = vh_b64u_enc_dup(hdr, hl), *p64 = vh_b64u_enc_dup(pl, pll);
	char *msg = malloc(strlen(h64) + strlen(p64) + 2), *tok, *s64 = NULL;
	size_t sl = 0;
	sprintf(msg, "%s.%s", h64, p64);
	if (kidx >= 0) {
		unsigned char *sig = vh_ref_sign(&K[kidx], KALG[kidx], msg, strlen(msg), &sl);
		if (sig) { s64 = vh_b64u_enc_dup(sig, sl); free(sig); }
	}
	tok = malloc(strlen(msg) + (s64 ? strlen(s64) : 0) + 2);
	sprintf(tok, "%s.%s", msg, s64 ? s64 : "");
	free(h64); free(p64); free(msg); free(s64);
	return tok;
}
static char *deep_json(int depth, int obj)
{
	char *s = malloc((size_t)depth * 6 + 32), *q = s;
	if (obj) { for (int i = 0; i < depth; i++) { memcpy(q, "{\"a\":", 5); q += 5; } *q++ = '1'; for (int i = 0; i < depth; i++) *q++ = '}'; }
	else { for (int i = 0; i < depth; i++) *q++ = '['; for (int i = 0; i < depth; i++) *q++ = ']'; }
	*q = 0;
	return s;
}

static void gen_case(long idx)
{
	int cls = (int)vh_below(&rng, 21);
	/* huge and deeply nested inputs cost milliseconds each under ASan: 1 in 12 of their share */
	if ((cls == 8 || cls == 9) && vh_below(&rng, 12)) cls = (int)vh_below(&rng, 8);
	int kidx = (int)vh_below(&rng, NKEYS + 1) - 1;	/* -1: alg none */
	char *tok = NULL;
	/* the first 132 cases are fixed: every key's own alg name (and "none") followed by 1..4096 filler characters, correctly signed */
	int det = idx < 12 * (NKEYS + 1);
	if (det) { cls = 15; kidx = (int)(idx % (NKEYS + 1)) - 1; }
	/* the next cases are fixed too: unregistered names that follow the pattern of the registered ones (family + number), shown unsigned to
	 * the key-less checkers and correctly signed (under the key's real alg) to the keyed ones */
	{
		static const char *FAM[] = { "HS", "RS", "ES", "PS" };
		static const char *NUM[] = { "0", "1", "128", "224", "255", "257", "383", "385", "511", "513", "640", "768", "1024", "000", "0256", "2560", "-256", "256K", "128K", "512K" };
		static const char *ODD[] = { "EdDSA256", "EdDSA0", "Ed25519", "Ed448", "EDDSA", "none0", "none1", "nonE", "non", "HS", "ES256k", "RSA256", "HMAC256", "SHA256", "A128KW", "dir", "RSA-OAEP", "ECDH-ES" };
		long base = 12 * (NKEYS + 1), nn = 4 * 20 + 18, q = idx - base;
		if (q >= 0 && q < nn * 2) {
			char name[32], hdr[96];
			long w = q / 2;
			const char *pl = PAYLOADS[0];
			if (w < 80) snprintf(name, sizeof(name), "%s%s", FAM[w / 20], NUM[w % 20]); else snprintf(name, sizeof(name), "%s", ODD[w - 80]);
			kidx = (q & 1) ? (int)(w % NKEYS) : -1;
			snprintf(hdr, sizeof(hdr), "{\"alg\":\"%s\"}", name);
			tok = token_from_parts(hdr, strlen(hdr), pl, strlen(pl), kidx);
			gen_class[15]++;
			vh_case_begin(idx, "\"cls\":15,\"name\":\"%s\"", name);
			run_token(tok, 0, 15);
			free(tok);
			return;
		}
	}
	gen_class[cls]++;
	switch (cls) {
	case 0:	/* plain valid */
		tok = make_valid(kidx, HDRS[vh_below(&rng, 7)], PAYLOADS[vh_below(&rng, 3)]);
		break;
	case 1:	/* valid with duplicate alg members / odd payloads */
		tok = make_valid(kidx, HDRS[vh_below(&rng, 12)], PAYLOADS[vh_below(&rng, 13)]);
		break;
	case 2: { /* malformed header JSON, correctly signed */
		const char *h = BADHDRS[vh_below(&rng, sizeof(BADHDRS) / sizeof(*BADHDRS))];
		tok = token_from_parts(h, strlen(h), PAYLOADS[0], strlen(PAYLOADS[0]), kidx);
		break;
	}
	case 3: { /* malformed payload JSON, correctly signed */
		const char *p = BADPAYLOADS[vh_below(&rng, sizeof(BADPAYLOADS) / sizeof(*BADPAYLOADS))];
		char hdr[64]; snprintf(hdr, sizeof(hdr), "{\"alg\":\"%s\"}", vh_alg_name(kidx < 0 ? 0 : KALG[kidx]));
		tok = token_from_parts(hdr, strlen(hdr), p, strlen(p), kidx);
		break;
	}
	case 4: case 5: case 6: { /* valid token with 1-2 character level faults */
		char *t = make_valid(kidx, HDRS[vh_below(&rng, 3)], PAYLOADS[vh_below(&rng, 3)]);
		size_t n = strlen(t);
		int faults = 1 + (int)vh_below(&rng, 2);
		tok = malloc(n + 16);
		strcpy(tok, t); free(t);
		for (int f = 0; f < faults; f++) {
			size_t m = strlen(tok), pos = m ? vh_below(&rng, m) : 0;
			switch (vh_below(&rng, 7)) {
			case 0: if (m) memmove(tok + pos, tok + pos + 1, m - pos); break;			/* delete */
			case 1: memmove(tok + pos + 1, tok + pos, m - pos + 1); tok[pos] = "AB.=-_+/ \n\x7f\x80z"[vh_below(&rng, 13)]; break;	/* insert */
			case 2: if (m) tok[pos] = (char)(1 + vh_below(&rng, 255)); break;			/* replace by any byte */
			case 3: if (m) tok[pos] = '.'; break;
			case 4: if (m) tok[pos] = '='; break;
			case 5: tok[pos] = 0; break;								/* truncate */
			default: { char *d = strchr(tok, '.'); if (d) memmove(d, d + 1, strlen(d)); }		/* drop a dot */
			}
		}
		break;
	}
	case 7: { /* padding variants at segment ends */
		char *t = make_valid(kidx, HDRS[0], PAYLOADS[0]), *h = t, *p = strchr(t, '.'), *s;
		static const char *PADS[] = { "", "=", "==", "===", "====", "=A", "A", "AA", "AAA" };
		*p++ = 0; s = strchr(p, '.'); *s++ = 0;
		tok = malloc(strlen(t) + strlen(p) + strlen(s) + 32);
		sprintf(tok, "%s%s.%s%s.%s%s", h, PADS[vh_below(&rng, 9)], p, PADS[vh_below(&rng, 9)], s, PADS[vh_below(&rng, 9)]);
		free(t);
		break;
	}
	case 8: { /* huge segments */
		size_t n = 10000 + vh_below(&rng, 50000);
		char *pl = malloc(n + 64);
		int off = sprintf(pl, "{\"iss\":\"c06\",\"big\":\"");
		memset(pl + off, 'x', n); strcpy(pl + off + n, "\"}");
		if (vh_below(&rng, 3) == 0) pl[off + n] = 'y';	/* unterminated string */
		{ char hdr[64]; snprintf(hdr, sizeof(hdr), "{\"alg\":\"%s\"}", vh_alg_name(kidx < 0 ? 0 : KALG[kidx]));
		  tok = token_from_parts(hdr, strlen(hdr), pl, strlen(pl), kidx); }
		free(pl);
		break;
	}
	case 9: { /* deep nesting in header or payload */
		int depth = (int)(vh_below(&rng, 3) == 0 ? 2040 + vh_below(&rng, 20) : vh_below(&rng, 6000));
		char *d = deep_json(depth, (int)vh_below(&rng, 2)), hdr[64];
		snprintf(hdr, sizeof(hdr), "{\"alg\":\"%s\"}", vh_alg_name(kidx < 0 ? 0 : KALG[kidx]));
		if (vh_below(&rng, 2)) tok = token_from_parts(hdr, strlen(hdr), d, strlen(d), kidx);
		else tok = token_from_parts(d, strlen(d), PAYLOADS[0], strlen(PAYLOADS[0]), kidx);
		free(d);
		break;
	}
	case 10: { /* uniform random bytes, NUL free */
		size_t n = vh_below(&rng, 4) ? vh_below(&rng, 200) : vh_below(&rng, 20000);
		tok = malloc(n + 1);
		for (size_t i = 0; i < n; i++) tok[i] = (char)(1 + vh_below(&rng, 255));
		tok[n] = 0;
		break;
	}
	case 11: { /* random alphabet strings with 0-4 dots */
		static const char A[] = "ABCDEFGHIJKLMNOPQRSTUVWXYZabcdefghijklmnopqrstuvwxyz0123456789-_";
		size_t n = vh_below(&rng, 300);
		tok = malloc(n + 8);
		for (size_t i = 0; i < n; i++) tok[i] = A[vh_below(&rng, 64)];
		tok[n] = 0;
		for (int d = (int)vh_below(&rng, 5); d > 0 && n; d--) tok[vh_below(&rng, n)] = '.';
		break;
	}
	case 12: { /* random binary decoded segments (UTF-8 damage, control bytes) */
		unsigned char h[64], p[64];
		size_t hl = vh_below(&rng, 40), pl = vh_below(&rng, 40);
		for (size_t i = 0; i < hl; i++) h[i] = (unsigned char)(1 + vh_below(&rng, 255));
		for (size_t i = 0; i < pl; i++) p[i] = (unsigned char)(1 + vh_below(&rng, 255));
		tok = token_from_parts((char *)h, hl, (char *)p, pl, kidx);
		break;
	}
	case 13: { /* JSON with a NUL inside the decoded header/payload */
		char hdr[80]; int n = snprintf(hdr, sizeof(hdr), "{\"alg\":\"%s\"}", vh_alg_name(kidx < 0 ? 0 : KALG[kidx]));
		memcpy(hdr + n + 1, "garbage", 7);
		if (vh_below(&rng, 2)) tok = token_from_parts(hdr, (size_t)n + 8, PAYLOADS[0], strlen(PAYLOADS[0]), kidx);
		else { char pl[64]; int m = snprintf(pl, sizeof(pl), "%s", PAYLOADS[0]); memcpy(pl + m + 1, "tail", 4); tok = token_from_parts(hdr, (size_t)n, pl, (size_t)m + 5, kidx); }
		break;
	}
	case 14: { /* segment count games */
		char *t = make_valid(kidx, HDRS[0], PAYLOADS[0]);
		tok = malloc(strlen(t) * 2 + 16);
		switch (vh_below(&rng, 6)) {
		case 0: sprintf(tok, "%s.", t); break;
		case 1: sprintf(tok, ".%s", t); break;
		case 2: sprintf(tok, "%s.%s", t, t); break;
		case 3: sprintf(tok, ".."); break;
		case 4: sprintf(tok, "."); break;
		default: { char *d = strrchr(t, '.'); *d = 0; sprintf(tok, "%s", t); }
		}
		free(t);
		break;
	}
	case 15: { /* header alg differs from key / unknown but well formed */
		static const char *ALGS[] = { "none", "HS256", "HS384", "RS256", "ES256", "ES384", "EdDSA", "PS256", "ES256K", "HS512" };
		char hdr[9000];
		if (!det && vh_below(&rng, 4) == 0) {
			/* unknown alg names of many lengths (they end up in an error message of bounded size) */
			static const int LEN[] = { 3, 100, 200, 230, 238, 239, 240, 241, 242, 250, 254, 255, 256, 257, 300, 1000, 5000 };
			int n = LEN[vh_below(&rng, 17)], o = sprintf(hdr, "{\"alg\":\"");
			if (vh_below(&rng, 3) == 0 && n <= 1000) {
				/* the same lengths made of control characters (JSON escapes), alone or after printable text: whatever an error path does to
				 * make such a name presentable (escaping, hex dumps) multiplies its size */
				static const char *CE[] = { "\\n", "\\u001b", "\\t", "\\u0001", "\\r", "\\u007f", "\\b", "\\u0085" };
				const char *e = CE[vh_below(&rng, 8)];
				int pre = vh_below(&rng, 2) ? 0 : n / 2;
				memset(hdr + o, 'Q', (size_t)pre); o += pre;
				for (int i = pre; i < n; i++) { strcpy(hdr + o, e); o += (int)strlen(e); }
				strcpy(hdr + o, "\"}");
			} else {
			memset(hdr + o, "AZx%"[vh_below(&rng, 4)], (size_t)n); strcpy(hdr + o + n, "\"}");
			}
		} else if (det || vh_below(&rng, 3) == 0) {
			/* a known name followed by filler: unknown names that an implementation folding or narrowing a length (mod 256, mod 65536 does
			 * not fit a header here) would take for the known one */
			static const int FL[] = { 1, 2, 255, 256, 257, 511, 512, 513, 768, 1024, 2048, 4096 };
			int n = FL[det ? (idx / (NKEYS + 1)) % 12 : (long)vh_below(&rng, 12)];
			int o = sprintf(hdr, "{\"alg\":\"%s", det ? vh_alg_name(kidx < 0 ? 0 : KALG[kidx]) : ALGS[vh_below(&rng, 10)]);
			memset(hdr + o, "AZx\x01"[vh_below(&rng, 3)], (size_t)n); strcpy(hdr + o + n, "\"}");
		} else
			snprintf(hdr, sizeof(hdr), "{\"alg\":\"%s\"}", ALGS[vh_below(&rng, 10)]);
		{ const char *pl = PAYLOADS[det ? 0 : vh_below(&rng, 13)]; tok = token_from_parts(hdr, strlen(hdr), pl, strlen(pl), kidx); }
		break;
	}
	case 16: { /* length classes of segments: 1,2,3 mod 4 by cutting chars off each segment */
		char *t = make_valid(kidx, HDRS[0], PAYLOADS[vh_below(&rng, 3)]), *h = t, *p = strchr(t, '.'), *s;
		*p++ = 0; s = strchr(p, '.'); *s++ = 0;
		size_t ch = vh_below(&rng, 4), cp = vh_below(&rng, 4), cs = vh_below(&rng, 4);
		if (strlen(h) > ch) h[strlen(h) - ch] = 0;
		if (strlen(p) > cp) p[strlen(p) - cp] = 0;
		if (strlen(s) > cs) s[strlen(s) - cs] = 0;
		tok = malloc(strlen(h) + strlen(p) + strlen(s) + 4);
		sprintf(tok, "%s.%s.%s", h, p, s);
		free(t);
		break;
	}
	case 17: { /* standard alphabet / mixed alphabet spelling of every segment */
		tok = make_valid(kidx, "{\"alg\":\"%s\",\"k\":\"\\u00ff\\u00fe\\u00fb\\u00ef~~~???>>>\"}", "{\"iss\":\"c06\",\"q\":\"???>>>~~~\\u00ff\"}");
		for (char *q = tok; *q; q++) { if (*q == '-' && vh_below(&rng, 2)) *q = '+'; else if (*q == '_' && vh_below(&rng, 2)) *q = '/'; }
		break;
	}
	case 18: { /* valid token followed by / preceded by whitespace & control bytes */
		char *t = make_valid(kidx, HDRS[0], PAYLOADS[0]);
		static const char *WS[] = { " ", "\n", "\r\n", "\t", "\x01", "\x7f", "\xc2\xa0" };
		tok = malloc(strlen(t) + 16);
		if (vh_below(&rng, 2)) sprintf(tok, "%s%s", t, WS[vh_below(&rng, 7)]); else sprintf(tok, "%s%s", WS[vh_below(&rng, 7)], t);
		free(t);
		break;
	}
	case 20: { /* signature of exactly the right length with structured content: zero / all-ones halves, 0..01, modulus-sized extremes */
		char *t = make_valid(kidx, HDRS[0], PAYLOADS[vh_below(&rng, 3)]), *d = strrchr(t, '.');
		unsigned char sg[1100];
		long sl = d ? vh_b64u_dec(d + 1, strlen(d + 1), sg) : -1;
		if (sl > 0 && sl <= 1024) {
			size_t w = (size_t)sl / 2, n = (size_t)sl;
			char *s64;
			switch (vh_below(&rng, 10)) {
			case 0: memset(sg, 0, n); break;
			case 1: memset(sg, 0, w); break;			/* first half (r) zero */
			case 2: memset(sg + w, 0, n - w); break;		/* second half (s) zero */
			case 3: memset(sg, 0xff, n); break;
			case 4: memset(sg, 0xff, w); break;
			case 5: memset(sg + w, 0xff, n - w); break;
			case 6: memset(sg, 0, n); sg[n - 1] = 1; break;
			case 7: memset(sg, 0, n); sg[w - 1] = 1; sg[n - 1] = 1; break;	/* r = s = 1 */
			case 8: memset(sg, 0, n); sg[0] = 0x80; break;
			default: memset(sg, 0, w); sg[w - 1] = 1; break;	/* r = 1, s genuine */
			}
			*d = 0;
			s64 = vh_b64u_enc_dup(sg, n);
			tok = malloc(strlen(t) + strlen(s64) + 2);
			sprintf(tok, "%s.%s", t, s64);
			free(s64); free(t);
		} else
			tok = t;
		break;
	}
	default: { /* empty / tiny */
		static const char *TINY[] = { "", ".", "..", "...", "a", "a.b", "a.b.c", "e30.e30.", "e30..", ".e30.", "e30.e30", "=", "=.=.=", "A.A.A", "AA.AA.AA" };
		tok = strdup(TINY[vh_below(&rng, 15)]);
	}
	}
	if (!tok) tok = strdup("");
	vh_case_begin(idx, "\"cls\":%d,\"len\":%zu", cls, strlen(tok));
	run_token(tok, 0, cls);
	free(tok);
}

int main(int argc, char **argv)
{
	vh_args_t a;
	vh_parse_args(argc, argv, &a);
	setup(a.seed);
	if (!strcmp(a.mode, "corpus")) {
		DIR *d = opendir(a.arg1);
		struct dirent *e;
		long i = 0;
		if (!d) vh_harness_fail("cannot open corpus dir %s", a.arg1);
		while ((e = readdir(d))) {
			char path[1024], *buf;
			FILE *f;
			long n;
			if (e->d_name[0] == '.') continue;
			if (!vh_mine(&a, i++)) continue;
			snprintf(path, sizeof(path), "%s/%s", a.arg1, e->d_name);
			f = fopen(path, "rb");
			if (!f) continue;
			fseek(f, 0, SEEK_END); n = ftell(f); fseek(f, 0, SEEK_SET);
			buf = malloc((size_t)n + 1);
			if (fread(buf, 1, (size_t)n, f) != (size_t)n) { fclose(f); free(buf); continue; }
			buf[n] = 0;
			fclose(f);
			vh_case_begin(i - 1, "\"file\":\"%s\"", e->d_name);
			run_token(buf, 0, 30);
			free(buf);
		}
		closedir(d);
	} else {
		for (long i = 0; i < a.n; i++) {
			if (!vh_mine(&a, i)) continue;
			vh_rng_seed(&rng, a.seed, 1000000 + (uint64_t)i);
			gen_case(i);
		}
	}
	printf("[\"STATS\",%lu,%lu,%lu,%lu", n_tokens, n_verify, n_accept, cb_calls);
	for (int c = 0; c < 21; c++) printf(",%lu", gen_class[c]);
	printf("]\n");
	teardown();
	return 0;
}
#endif

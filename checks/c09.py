"""C09 — key-strength floor for signing and verification."""
import vf
from monitors import policy_model as pm
from checks.c02 import merge


def spec(tier):
    if tier == "thorough":
        octs = ",".join("oct:%d" % n for n in range(0, 161))
        rsas = "rsa:512,rsa:1024,rsa:1536,rsa:2040,rsa:2047,rsa:2048,rsa:2049,rsa:3072,rsa:4096"
    else:
        octs = ",".join("oct:%d" % n for n in (0, 1, 16, 31, 32, 33, 47, 48, 49, 63, 64, 65, 96, 128, 160))
        rsas = "rsa:1024,rsa:2047,rsa:2048"
    # the same short keys spelled non-canonically in the JWK ('=' padding, characters after the padding): the floor is about the key's bytes
    octs += ",octnl:32,octnl:48,octnl:64,octnl:33,octz:32,octz:64,octpad:31,octpad:46,octpad:47,octpad:62,octpad:32,octjunk:1,octjunk:16,octjunk:31,octjunk:47,octjunk:64"
    keys = "%s,%s,ec:P-256,ec:P-384,ec:P-521,ec:secp256k1,ec:brainpoolP512r1,ec:brainpoolP384r1,ec:brainpoolP256r1,okp:Ed25519,okp:Ed448,okp:X25519" % (octs, rsas)
    # every alg both as explicit alg (key without alg) and as key alg attribute (no explicit alg); tokens signed by the
    # harness with the weak key for every header alg the key's family can sign
    return "prov=0,1;route=0,1,9;cfg=0..14;keys=%s;kalg=-1,1..14;pub=0,1;hdr=1..14;sig=2;op=v,g;pinonly=1" % keys


def run(tier, seed, replay):
    rep = vf.Report("C09", tier, seed)
    rep.rule = ("complete enumeration of key (oct length, RSA modulus size, EC curve incl. 256/384/512-bit brainpool curves, OKP curve) x algorithm x "
                "{explicit alg, key alg attribute} x {setkey, callback} x {generate, verify of a harness-signed token} x provider; "
                "distinct = distinct (op, provider, key, alg, outcome) tuples")
    rep.assumptions = ["verify-side tokens are signed by the harness' own signer with the weak key, so only the floor can reject them",
                       "ES256K on GnuTLS is documented as unsupported and excluded from the 'keys at the floor work' clause",
                       "a zero-length oct key and an X25519 OKP key cannot be imported at all (item in error state); they are still offered to setkey"]
    rd = vf.run_dir("C09")
    b = vf.driver("d_policy", "asan")
    args = ["--arg1", spec(tier), "--seed", seed, "--tier", tier]
    if replay and (replay.get("witness") or {}).get("idx") is not None:
        args += ["--only", replay["witness"]["idx"]]
    outs, crashes = vf.run_shards(b, args, vf.NCPU, rd, timeout=3000)
    rep.crash_violations(crashes)
    keys, hdrs = pm.load_meta(outs)
    merge(rep, vf.pmap(pm.judge, [(p, "C09", keys, hdrs) for p in outs]), "C09")
    if not replay:
        # the same matrix once more with every fresh heap block pre-filled with 0x01 (ASan's malloc_fill_byte; the default run fills with 0xbe):
        # a size or flag that is read before it was written then looks like a plausible positive number instead of a negative one, so a
        # floor decision taken on it shows up as a key below the floor being used (error-state items are offered to setkey in this matrix)
        fill = {"ASAN_OPTIONS": vf.SAN_ENV["ASAN_OPTIONS"] + ":malloc_fill_byte=1:max_malloc_fill_size=1048576"}
        outs2, crashes2 = vf.run_shards(b, args, vf.NCPU, rd, env=fill, tag="f", timeout=3000)
        rep.crash_violations(crashes2, prefix="fill01:")
        before = dict(rep.counters)
        merge(rep, vf.pmap(pm.judge, [(p, "C09", keys, hdrs) for p in outs2]), "C09")
        rep.count("cells_repeated_with_heap_fill_0x01", rep.counters.get("verify", 0) - before.get("verify", 0))
    c = rep.counters
    if not replay:
        vf.need(rep, c.get("at_floor_expected_accept", 0) > 100, "too few at-floor verify cells")
        vf.need(rep, c.get("at_floor_expected_produce", 0) > 50, "too few at-floor generate cells")
        vf.need(rep, c.get("accepted", 0) > 0 and c.get("produced", 0) > 0, "nothing accepted/produced (positive control)")
        vf.need(rep, c.get("verify", 0) - c.get("accepted", 0) > 100, "too few rejected verify events (weak keys not exercised)")
    rep.exhaustive = True
    rep.extra["matrix"] = spec(tier)
    return rep

"""C17 — allocation failure is reported: never a crash, never a wrong success."""
import json, re
import vf


def run(tier, seed, replay):
    rep = vf.Report("C17", tier, seed, level="fault_enumeration")
    rep.rule = ("for every scenario (loading each key type alone / in a set, builder and checker configuration with every value type, "
                "generate for none/HS256/RS256/PS256/ES256/EdDSA with and without claims+callback, verify of valid and of "
                "must-stay-rejected tokens, on both providers) the allocation count n is measured and every k in 1..n is injected, one at a "
                "time; distinct = distinct (scenario, symbolised call chain of the failing allocation) pairs")
    rep.assumptions = ["only allocations routed through jwt_set_alloc fail (libjwt and jansson); OpenSSL/GnuTLS internal allocations do not",
                       "single faults only; leak-freedom under OOM is not part of the statement (LeakSanitizer off)"]
    rd = vf.run_dir("C17")
    b = vf.driver("d_c17", "asan", clock=True, extra_flags="-rdynamic")
    env = {"ASAN_OPTIONS": vf.SAN_ENV["ASAN_OPTIONS"].replace("detect_leaks=1", "detect_leaks=0")}
    args = ["--seed", seed, "--tier", tier]
    outs, crashes = vf.run_shards(b, args, vf.NCPU, rd, env=env, timeout=3400, max_restarts=400)
    scen = {}
    injections = 0
    for ev in vf.read_jsonl([]):
        pass
    evs = []
    for p in outs:
        with open(p, errors="replace") as fh:
            for line in fh:
                if line.startswith('["B"'):
                    e = json.loads(line); scen[e[1]] = dict(name=e[2], n=e[3], baseline_rc=e[4], baseline=e[5])
                elif line.startswith('["F"'):
                    try:
                        evs.append(json.loads(line))
                    except Exception:
                        pass
                elif line.startswith('["FF"'):
                    e = json.loads(line)
                    rep.violation("foreign-free:%s" % e[1].split(":")[0],
                                  "the free function installed through jwt_set_alloc received a block that the installed malloc function never returned "
                                  "(scenario %s, failing allocation %s)" % (e[1], e[2] or "none"), dict(scenario=e[1], k=e[2]))
                elif line.startswith('["WF"'):
                    e = json.loads(line)
                    rep.violation("write-after-free:%s" % e[1].split(":")[0],
                                  "a block freed through the installed allocator was written to afterwards (scenario %s, failing allocation %s, block of %d bytes, "
                                  "first changed byte at offset %d)" % (e[1], e[2] or "none", e[3], e[4]), dict(scenario=e[1], k=e[2], size=e[3], offset=e[4]))
                elif line.startswith('["PT"'):
                    e = json.loads(line)
                    rep.count("blocks_tracked_through_installed_allocator", e[1])
                    if len(e) > 3:
                        rep.count("freed_blocks_pattern_checked", e[3])
    total_n = sum(s["n"] for s in scen.values())
    covered = set()
    for e in evs:
        si, k, outcome, chain = e[1:5]
        name = scen.get(si, {}).get("name", str(si))
        injections += 1
        covered.add((si, k))
        rep.distinct.add((name, chain))
        rep.count("outcome." + outcome)
        if outcome and outcome[0].isupper():
            kind = name.split(":")[0]
            kchain = chain or "?"
            if kchain.startswith("failure-reported-by:"):
                # jansson returned failure from its entry point and the result still differs: libjwt ignored a reported failure
                kchain = "jansson-failure-ignored:" + kchain.split("|")[0].split(":", 1)[1]
            elif kchain.startswith("jansson*"):
                # the failing allocation is inside jansson: the defect is identified by jansson's public entry point,
                # whichever libjwt function happened to call it
                fr = kchain.split("<")
                keep = [f for i, f in enumerate(fr) if all(x.startswith(("jansson*", "json_")) for x in fr[:i + 1])]
                # ... and by the *family* of that entry point: whether libjwt reaches jansson's parser through json_loads or json_loadb,
                # its dumper through json_dumps or json_dumpb, is libjwt's choice and not part of the jansson defect
                fam = []
                for f in keep:
                    g = ("json_load*" if f.startswith("json_load") else
                         "json_dump*" if f.startswith("json_dump") else f)
                    if not fam or fam[-1] != g:
                        fam.append(g)
                kchain = "<".join(fam)
            rep.violation("%s:%s:%s" % (kind, outcome, kchain), "with allocation #%d failing, scenario %s: %s" % (k, name, outcome),
                          dict(scenario=name, k=k, n=scen.get(si, {}).get("n"), chain=chain, got=e[5] if len(e) > 5 else None, baseline=e[6] if len(e) > 6 else None))
    for cr in crashes:
        case = cr.get("case") or {}
        name = case.get("scenario", "?")
        k = case.get("k")
        if case.get("idx") is not None:
            covered.add((case["idx"] // 100000, case["idx"] % 100000))
            injections += 1
        # call chain of the failing allocation is not printed when the process dies; use the sanitizer's first libjwt frame
        rep.violation("%s:CRASH:%s" % (name.split(":")[0], cr["key"]), "with allocation #%s failing, scenario %s: %s" % (k, name, cr["key"]),
                      dict(scenario=name, k=k, stderr=cr["stderr"][-2500:]))
        rep.count("outcome.CRASH")
    rep.evaluations = injections
    rep.count("scenarios", len(scen)); rep.count("allocations_per_all_scenarios", total_n)
    missing = total_n - len(covered)
    rep.extra["injection_points"] = total_n
    rep.extra["injection_points_covered"] = len(covered)
    rep.exhaustive = missing == 0
    for si, s in list(scen.items())[:3]:
        rep.sample(s)
    vf.need(rep, len(scen) >= 30, "too few scenarios (%d)" % len(scen))
    vf.need(rep, rep.counters.get("blocks_tracked_through_installed_allocator", 0) > 10000, "allocator tracking saw nothing")
    vf.need(rep, missing == 0, "%d injection points were not executed (shard died too often?)" % missing)
    vf.need(rep, rep.counters.get("outcome.reported", 0) > 100, "too few reported failures observed")
    return rep

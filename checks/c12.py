"""C12 — crypto providers are interchangeable."""
import json, os, subprocess
import vf
from checks import c01

COMPILED = {"openssl": 1, "gnutls": 2}
ENVVALS = [None, "", "openssl", "gnutls", "GNUTLS", "OpenSSL", "mbedtls", "junk", "gnutls ", " gnutls", "gnutl", "openssl,gnutls", "2",
           # values as a careless env file or shell would pass them: quoted, with line ends, separators, a path or a version
           '"gnutls"', "'gnutls'", '"gnutls', "gnutls'", "`gnutls`", "gnutls\n", "gnutls\r", "gnutls;", "gnutls,", "gnutls:", "=gnutls", "gnutls=1", "libgnutls",
           "gnutls3", "gnutls.so", "/gnutls", "gnutls/", "(gnutls)", "[gnutls]", "{gnutls}", "<gnutls>", "gnutls\t", "\tgnutls", "gnuttls", "gntls", "gnutls#", "$gnutls"]


def run(tier, seed, replay):
    rep = vf.Report("C12", tier, seed)
    rep.rule = ("(a) the C01 mutation workload with every token verified under both providers: verdict agreement on RFC-signed and on "
                "not-validly-signed tokens, each provider accepting the other's signatures, byte-identical tokens for HS*/RS*/EdDSA; "
                "(b) every provider name incl. near-misses and every id -2..7 from either starting provider; (c) the JWT_CRYPTO values "
                "observed in child processes; (d) keys loaded under one provider used and freed under the other. distinct = distinct "
                "(key, alg, mutation class) tuples + distinct selector arguments + environment values + (key, load provider, use provider)")
    rep.assumptions = ["tokens that are cryptographically valid but not canonical (non-canonical base64, padding, standard alphabet, high-s) are the "
                       "excluded middle: disagreement there is counted, not judged", "secp256k1/ES256K is outside the common support matrix (GnuTLS lacks it)",
                       "MbedTLS is not compiled in this image"]
    rd = vf.run_dir("C12")
    b = vf.driver("d_c01", "asan")
    args = ["--arg1", "keys=" + c01.keys_for(tier), "--seed", seed, "--tier", tier]
    outs, crashes = vf.run_shards(b, args, vf.NCPU, rd, timeout=3000)
    rep.crash_violations(crashes)
    for r in vf.pmap(c01.judge, [(p, "C12") for p in outs]):
        rep.evaluations += r["n"]
        rep.distinct |= r["distinct"]
        for k, what, wit in r["viol"]:
            rep.violation(k, what, wit)
        for s in r["samples"]:
            rep.sample(s)
        for k, v in r["c"].items():
            rep.count(k, v)
    b12 = vf.driver("d_c12", "asan")
    env = dict(os.environ); env.update(vf.SAN_ENV)
    env.pop("JWT_CRYPTO", None)
    # (b) selector arguments
    r = subprocess.run([b12, "--mode", "ops", "--seed", str(seed)], capture_output=True, text=True, env=env)
    if r.returncode != 0:
        rep.violation(vf.san_key(r.stderr) or "ops-exit:%d" % r.returncode, "provider selection driver died", dict(stderr=r.stderr[-2000:]))
    for line in r.stdout.splitlines():
        if not line.startswith('["O"'):
            continue
        _, kind, arg, before, rc, after, after_id = json.loads(line)
        rep.evaluations += 1
        rep.distinct.add(("select", kind, arg))
        valid = (arg in COMPILED) if kind == "name" else (arg in COMPILED.values())
        want = (arg if kind == "name" else [n for n, i in COMPILED.items() if i == arg][0]) if valid else before
        rep.count("selector_calls")
        if valid and (rc != 0 or after != want):
            rep.violation("select-exact-refused:%s" % arg, "exact provider %r not selected (rc %d, provider %s)" % (arg, rc, after), dict(line=line))
        if not valid and (rc == 0 or after != before):
            rep.violation("select-nearmiss-accepted:%s:%r" % (kind, arg), "near-miss %r: rc %d, provider %s -> %s" % (arg, rc, before, after), dict(line=line))
        if COMPILED.get(after) != after_id:
            rep.violation("provider-id-name-mismatch", "jwt_get_crypto_ops %s but id %d" % (after, after_id), dict(line=line))
    # (c) environment
    for v in ENVVALS:
        e = dict(env)
        if v is not None:
            e["JWT_CRYPTO"] = v
        r = subprocess.run([b12, "--mode", "env"], capture_output=True, text=True, env=e)
        rep.evaluations += 1
        rep.distinct.add(("env", v))
        got = None
        for line in r.stdout.splitlines():
            if line.startswith('["E"'):
                got = json.loads(line)[1]
        want = v if v in COMPILED else "openssl"
        rep.count("env_children")
        if r.returncode != 0 or got != want:
            rep.violation("env:%r" % v, "JWT_CRYPTO=%r: provider at start %r, expected %r (rc %d)" % (v, got, want, r.returncode), dict(stderr=r.stderr[-500:]))
    # (d) key portability
    r = subprocess.run([b12, "--mode", "port", "--seed", str(seed)], capture_output=True, text=True, env=env)
    if r.returncode != 0:
        rep.violation("port:" + (vf.san_key(r.stderr) or "exit:%d" % r.returncode), "key portability driver died", dict(stderr=r.stderr[-2500:]))
    for line in r.stdout.splitlines():
        if not line.startswith('["P"'):
            continue
        _, key, alg, lp, up, null, vrc, ref = json.loads(line)
        rep.evaluations += 1
        rep.distinct.add(("port", key, lp, up))
        rep.count("portability_cells")
        if null or vrc != 0 or ref != 1:
            rep.violation("port:%s:load-%s:use-%s" % (key, c01.PROVS[lp], c01.PROVS[up]),
                          "key loaded under %s is not usable under %s (token NULL %d, verify rc %d, ref %d)" % (c01.PROVS[lp], c01.PROVS[up], null, vrc, ref),
                          dict(line=line))
    for line in r.stdout.splitlines():
        if not line.startswith('["P2"'):
            continue
        _, key, alg, lp, pat, step, prov, null, vrc, ref, vprev = json.loads(line)
        rep.evaluations += 1
        rep.distinct.add(("switch", key, lp, pat, step))
        rep.count("provider_switch_steps")
        if null or vrc != 0 or ref != 1 or vprev not in (-1, 0):
            rep.violation("switch:%s:created-under-%s:step%d-under-%s" % (key, c01.PROVS[lp], step, c01.PROVS[prov]),
                          "builder/checker/keyring created under %s, provider switched in the middle of the history (pattern %s): step %d under %s gives "
                          "token NULL %d, verify rc %d, reference %d, verify of the previous provider's token rc %d"
                          % (c01.PROVS[lp], "ABABAB" if pat == 0 else "AABBAA", step, c01.PROVS[prov], null, vrc, ref, vprev), dict(line=line))
    c = rep.counters
    vf.need(rep, c.get("provider_switch_steps", 0) >= 150, "provider-switch histories missing")
    vf.need(rep, c.get("verdict_pairs", 0) > 20000, "too few verdict pairs")
    vf.need(rep, c.get("deterministic_pairs", 0) >= 6, "too few deterministic token pairs compared")
    vf.need(rep, c.get("portability_cells", 0) >= 28, "key portability cells missing")
    vf.need(rep, c.get("env_children", 0) == len(ENVVALS), "environment children missing")
    return rep
